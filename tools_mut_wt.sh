#!/bin/bash
# like tools_mut.sh but on the scratch worktree /tmp/wt/confirm (so that /repo stays untouched while other runs use it)
P=$1; ID=$2; TIER=${3:-quick}
WT=${WT:-/tmp/wt/confirm}
cd $WT || exit 9
git checkout -q --detach $(git -C /repo rev-parse HEAD) && git checkout -q -- .
git apply --check "$P" || { echo "PATCH DOES NOT APPLY"; exit 9; }
trap "cd $WT && git checkout -q -- ." EXIT
git apply "$P"
cd /verif; PYTHONPATH=/verif:$WT timeout 1500 .venv/bin/python -m vf.cli $ID --tier $TIER 2>&1 | grep -v "^INCONCLUSIVE\|SyntaxWarning\|^  '" | tail -5; rc=${PIPESTATUS[0]}
echo "check exit=$rc"
