#!/bin/bash
# usage: tools_seed.sh <name>...   confirm a seeded change in a scratch worktree and store it under /verif/seeded/<name>/
WT=${WT:-/tmp/wt/confirm}
cd /repo
[ -d $WT ] || git worktree add -q --detach $WT HEAD
cd $WT && git checkout -q --detach $(git -C /repo rev-parse HEAD) && git checkout -- . 
for name in "$@"; do
  src=/tmp/wt/out/$name
  [ -f $src/patch.diff ] || { echo "$name: no patch"; continue; }
  cd $WT && git checkout -- .
  d0=$(cd $src && PYTHONPATH=$WT timeout 120 /venv/bin/python demo.py >/tmp/wt/demo0_$name.log 2>&1; echo $?)
  git apply $src/patch.diff || { echo "$name: patch does not apply"; continue; }
  d1=$(cd $src && PYTHONPATH=$WT timeout 120 /venv/bin/python demo.py >/tmp/wt/demo1_$name.log 2>&1; echo $?)
  PYTHONPATH=$WT /venv/bin/python -m pytest -q -p no:cacheprovider --timeout=900 --continue-on-collection-errors -rA > /tmp/wt/test_$name.log 2>&1
  passed=$(grep -c "^PASSED" /tmp/wt/test_$name.log); 
  grep "^PASSED" /tmp/wt/test_$name.log | sed 's/ .*//;s/^PASSED //' | sort > /tmp/wt/passed_$name.txt
  grep -E "^PASSED tests" /tmp/wt/test_$name.log | awk '{print $2}' | sort -u > /tmp/wt/passed_$name.txt
  summary=$(tail -1 /tmp/wt/test_$name.log)
  git checkout -- .
  missing=$(python3 - <<PY
import json
base=set(json.load(open('/root/.vp/BASELINE.json'))['stable_pass'])
got=set()
for l in open('/tmp/wt/passed_$name.txt'):
    l=l.strip()
    if not l: continue
    f,cls,t=l.split('::')
    got.add(f.replace('/','.').replace('.py','')+'.'+cls+'::'+t)
print(len(base-got), sorted(base-got)[:3])
PY
)
  echo "$name: demo unchanged exit=$d0 changed exit=$d1 | tests: $summary | baseline tests missing: $missing"
  if [ "$d0" = "0" ] && [ "$d1" != "0" ] && [ "${missing%% *}" = "0" ]; then
    mkdir -p /verif/seeded/$name; cp $src/patch.diff $src/demo.py /verif/seeded/$name/
    python3 - <<PY
import json
m=json.load(open('$src/meta.json'))
m['confirmed_by_me']={'scratch_worktree':'$WT (removed afterwards)','demo_exit_unchanged':$d0,'demo_exit_changed':$d1,
  'tests':'all 60 baseline tests still pass with the change ($summary)'.strip(),'demo_output_changed':open('/tmp/wt/demo1_$name.log').read()[-600:]}
json.dump(m,open('/verif/seeded/$name/meta.json','w'),indent=1)
PY
    echo "  -> stored /verif/seeded/$name"
  else
    echo "  -> NOT stored"
  fi
done
