#!/bin/bash
# Build the overlay venv offline: /venv's packages + /repo on the path + z3-solver and crosshair-tool
# from the offline wheelhouse. Idempotent.
set -e
cd "$(dirname "$0")"
export PIP_NO_INDEX=1
if [ ! -x .venv/bin/python ] || ! .venv/bin/python -c "import z3, crosshair, sc3" 2>/dev/null; then
  rm -rf .venv
  /venv/bin/python -m venv .venv
  SP=$(.venv/bin/python -c "import sysconfig; print(sysconfig.get_paths()['purelib'])")
  printf "import site; site.addsitedir('/venv/lib/python3.12/site-packages')\n/repo\n" > "$SP/_overlay.pth"
  .venv/bin/python -m pip install -q --no-index --find-links /opt/veriftools/wheels z3-solver crosshair-tool
fi
.venv/bin/python -c "import z3, crosshair, sc3; print('setup ok', z3.get_version_string(), sc3.__file__)"
mkdir -p work evidence
