"""Environment-in-wait co-simulation of the real clock threads (RT mode), single-threaded and deterministic.

All shared clock state is accessed under main._main_lock; SystemClock._run / TempoClock._run hold it except inside
Condition.wait, AppClock._run releases it once per iteration.  Hence every interleaving of foreign threads with a
clock thread is equivalent to: at each lock release / wait of the clock thread an arbitrary sequence of complete
foreign critical sections runs, time advances, the clock thread continues.  Here the fake Condition.wait / lock
release *is* the environment: solver decisions choose how many pending foreign actions run there and whether the
wait ends by notification or by time-out; physical time is an arbitrary non-decreasing symbolic real.
"""
import itertools
import threading as _real_threading
import z3
from . import symx
from .symx import Ctx, PathAbort, SymReal, Violation, Inconclusive


class EndPath(BaseException):
    """the simulated clock thread blocks forever (no more foreign actions) or the step budget is used up"""


class World:
    def __init__(self, ctx, jitter=False, max_events=24):
        self.ctx = ctx
        self.jitter = jitter
        self.n = itertools.count()
        self.now = ctx.real('t0', 0, None)
        self.instants = [self.now]
        self.script = []              # pending foreign actions: callables(world)
        self.in_ext = False
        self.events = 0
        self.max_events = max_events
        self.blocked = False          # the clock thread is blocked forever
        self.truncated = False
        self.trace = []               # decisions in words (for replay records / samples)
        self.log = []

    # ---- time
    def elapsed_time(self):
        return self.now

    def advance(self, to=None, at_least=False):
        k = next(self.n)
        t = self.ctx.real(f'adv{k}')
        if self.ctx.concrete is not None:
            # concrete re-execution (replays): take the recorded instant, clamped to what the model allows
            if f'adv{k}' not in self.ctx.concrete:
                t = float(self.now) if to is None else max(float(self.now), float(to))
            elif to is None:
                t = max(t, float(self.now))
            elif at_least or self.jitter:
                t = max(t, float(self.now), float(to))
            else:
                t = float(to)
            self.now = t
            self.instants.append(t)
            return t
        if to is None:
            self.ctx.assume(t.e >= self.now.e)
        elif at_least or self.jitter:
            self.ctx.assume(t.e >= symx._real(symx._t(to)))
            self.ctx.assume(t.e >= self.now.e)
        else:
            self.ctx.assume(t.e == symx._real(symx._t(to)))
        self.ctx.assume(t.e <= 1000000)      # horizon: 10^6 s of physical time
        self.now = t
        self.instants.append(t)
        return t

    # ---- foreign threads
    def run_foreign(self, deadline=None, cond=None, instant=False):
        """zero or more pending foreign actions happen now; returns True as soon as one notified `cond`"""
        if self.in_ext:
            return False
        while self.script:
            go = self.ctx.choose(f'go{next(self.n)}', 2)
            if not go:
                break
            act = self.script.pop(0)
            if instant and not self.jitter:
                self.advance(to=self.now)     # zero-jitter: no time passes inside a lock-release gap
            else:
                self.advance()
            if deadline is not None and not self.jitter:
                # zero-jitter sub-model: the time-out would have fired first
                if not (self.now < deadline):
                    raise PathAbort('foreign action after the deadline')
            self.trace.append(('foreign', getattr(act, 'label', '?')))
            self.in_ext = True
            try:
                act(self)
            finally:
                self.in_ext = False
            if cond is not None and cond.notified:
                return True
        return False

    def midtask(self):
        """called from inside a task body: the task takes time; foreign threads run meanwhile (they block if they need
        the lock the clock thread is holding)"""
        self.step()
        self.run_foreign()

    def step(self):
        self.events += 1
        if self.events > self.max_events:
            self.truncated = True
            raise EndPath('event budget')


class FakeLocal:
    """stands in for a threading.local() of the library: one namespace per SIMULATED thread (the clock thread, and the
    foreign thread while a foreign action runs)"""

    def __init__(self, world, initial=None):
        object.__setattr__(self, '_w', world)
        object.__setattr__(self, '_ns', {'clock': dict(initial or {}), 'foreign': {}})

    def _cur(self):
        return self._ns['foreign' if self._w.in_ext else 'clock']

    def __getattr__(self, name):
        try:
            return self._cur()[name]
        except KeyError:
            raise AttributeError(name)

    def __setattr__(self, name, value):
        self._cur()[name] = value

    def __delattr__(self, name):
        self._cur().pop(name, None)


class FakeLock:
    """main._main_lock: re-entrant, never contended in the single-threaded simulation; when `gap` is set its release
    by the clock thread is an environment point (AppClock)"""

    def __init__(self, world, gap=False):
        self.world = world
        self.gap = gap
        self.depth = 0
        self.clock_depth = 0      # > 0 while the simulated clock thread holds the lock (outside its waits)

    def _foreign_would_block(self):
        if self.world.in_ext and self.clock_depth > 0:
            # a foreign thread that needs the lock while the clock thread holds it simply waits for the release: that
            # behaviour is the path on which the same action runs at the next release / wait point
            raise PathAbort('foreign thread blocks on the main lock until the clock thread releases it')

    def __enter__(self):
        self._foreign_would_block()
        self.depth += 1
        return self

    def __exit__(self, *a):
        self.depth -= 1
        if self.gap and self.depth == 0 and not self.world.in_ext:
            self.world.step()
            self.world.run_foreign(instant=True)
        return False

    def acquire(self, *a, **k):
        self._foreign_would_block()
        self.depth += 1
        return True

    def release(self):
        self.depth -= 1


class FakeCond:
    def __init__(self, world, name='cond', lock=None):
        self.world = world
        self.name = name
        self.notified = False
        self.waiting = False
        self.lock = lock          # the FakeLock this condition is built on (main._main_lock), if any

    def __enter__(self):
        if self.lock is not None:
            if self.world.in_ext:
                self.lock._foreign_would_block()
            else:
                self.lock.clock_depth += 1
        return self

    def __exit__(self, *a):
        if self.lock is not None and not self.world.in_ext:
            self.lock.clock_depth -= 1
        return False

    def acquire(self, *a, **k):
        return True

    def release(self):
        pass

    def notify(self, n=1):
        # a notification only reaches a thread that is waiting right now
        if self.waiting:
            self.notified = True

    def notify_all(self):
        self.notify()

    def wait(self, timeout=None):
        w = self.world
        w.step()
        self.notified = False
        self.waiting = True
        t_enter = w.now
        held = 0
        if self.lock is not None:
            held, self.lock.clock_depth = self.lock.clock_depth, 0      # waiting releases the lock
        try:
            deadline = None if timeout is None else t_enter + timeout
            if w.run_foreign(deadline, self):
                w.trace.append(('wake', self.name, 'notified'))
                return True
            if timeout is None:
                if w.script:
                    raise PathAbort('foreign actions left but none taken: covered by the go=1 branch')
                w.blocked = True
                w.trace.append(('blocked', self.name))
                raise EndPath('blocked forever')
            # negative / zero time-outs return at once
            w.advance(to=symx_max(t_enter, deadline))
            w.trace.append(('wake', self.name, 'timeout'))
            return False
        finally:
            self.waiting = False
            if self.lock is not None:
                self.lock.clock_depth = held


def symx_max(a, b):
    if not isinstance(a, (SymReal, symx.SymInt)) and not isinstance(b, (SymReal, symx.SymInt)):
        return max(a, b)
    ta, tb = symx._real(symx._t(a)), symx._real(symx._t(b))
    return SymReal(z3.If(ta >= tb, ta, tb))


class FakeThread:
    def __init__(self, target=None, name=None, daemon=None, args=()):
        self.target = target
        self.name = name
        self._alive = True

    def start(self):
        pass

    def is_alive(self):
        return self._alive

    def join(self, timeout=None):
        self._alive = False


class FakeThreading:
    """stands in for the `threading` module inside sc3.base.clock"""

    def __init__(self, world):
        self.world = world
        self.conds = []

    def Thread(self, target=None, name=None, daemon=None, args=()):
        return FakeThread(target, name, daemon, args)

    def Condition(self, lock=None):
        c = FakeCond(self.world, f'cond{len(self.conds)}', lock if isinstance(lock, FakeLock) else None)
        self.conds.append(c)
        return c

    def RLock(self):
        return FakeLock(self.world)

    Lock = RLock

    def current_thread(self):
        return 'sim'

    def main_thread(self):
        return 'main'


class Sim:
    """Context: RT main patched for one path.  Use: with Sim(ctx) as s: ... s.run(clock) ..."""

    def __init__(self, ctx, jitter=False, max_events=24, appclock_gap=False):
        self.ctx = ctx
        self.world = World(ctx, jitter, max_events)
        self.appclock_gap = appclock_gap

    def __enter__(self):
        from sc3.base import main as _m, clock as clk, _taskq as tsq
        self.m, self.clk = _m.main, clk
        main = self.m
        w = self.world
        self.saved = dict(elapsed_time=main.__dict__.get('elapsed_time'), lock=main._main_lock,
                          current_tt=main.current_tt, in_awake=main._in_awake_call, threading=clk.threading,
                          sc_queue=clk.SystemClock._task_queue, sc_cond=clk.SystemClock._sched_cond,
                          ac_lock=clk.AppClock._sched_lock, ac_cond=clk.AppClock._tick_cond,
                          ac_sched=clk.AppClock._scheduler, msec=main.main_tt._m_seconds,
                          ac_signal=getattr(clk.AppClock, '_tick_signal', None))
        self.sh = symx.shims()
        self.sh.__enter__()
        # thread-local storage held by the main class (if any) becomes per simulated thread
        self.locals_saved = []
        for holder in (type(main), main):
            for name, val in list(vars(holder).items()):
                if isinstance(val, _real_threading.local):
                    self.locals_saved.append((holder, name, val))
                    setattr(holder, name, FakeLocal(w, dict(getattr(val, '__dict__', {}))))
        main.elapsed_time = w.elapsed_time
        self.lock = FakeLock(w, gap=self.appclock_gap)
        main._main_lock = self.lock
        main.current_tt = main.main_tt
        main._in_awake_call = False
        self.fthreading = FakeThreading(w)
        clk.threading = self.fthreading
        clk.SystemClock._task_queue = tsq.TaskQueue()
        clk.SystemClock._sched_cond = FakeCond(w, 'SystemClock', self.lock)
        clk.AppClock._sched_lock = self.lock
        clk.AppClock._tick_cond = FakeCond(w, 'AppClock')
        clk.AppClock._scheduler = clk.Scheduler(clk.AppClock, drift=True, recursive=False)
        if hasattr(clk.AppClock, '_tick_signal'):
            clk.AppClock._tick_signal = False
        return self

    def __exit__(self, *a):
        main, clk = self.m, self.clk
        s = self.saved
        if s['elapsed_time'] is None:
            try:
                del main.elapsed_time
            except AttributeError:
                pass
        else:
            main.elapsed_time = s['elapsed_time']
        main._main_lock = s['lock']
        main.current_tt = s['current_tt']
        main._in_awake_call = s['in_awake']
        main.main_tt._m_seconds = s['msec']
        clk.threading = s['threading']
        clk.SystemClock._task_queue = s['sc_queue']
        clk.SystemClock._sched_cond = s['sc_cond']
        clk.AppClock._sched_lock = s['ac_lock']
        clk.AppClock._tick_cond = s['ac_cond']
        clk.AppClock._scheduler = s['ac_sched']
        if s['ac_signal'] is not None:
            clk.AppClock._tick_signal = s['ac_signal']
        for holder, name, val in self.locals_saved:
            setattr(holder, name, val)
        self.sh.__exit__()
        return False

    def foreign(self, label, fn):
        """register a foreign (main-thread) action; it runs at a solver-chosen environment point"""
        main = self.m

        def act(world):
            # the action runs as "another thread": thread-local storage of the library is emulated per simulated thread
            # (FakeLocal below); anything the library keeps in plain globals is shared, as it is between real threads
            fn(world)
        act.label = label
        self.world.script.append(act)

    def run(self, clock):
        """run the clock's real _run loop until it blocks forever / the budget ends"""
        self.world.blocked = False
        try:
            clock._run()
        except EndPath:
            pass
        return self.world
