"""Byte and string proxies with SYMBOLIC CONTENT and concrete length ("ropes" of cells).

A SymBytes is a list of cells; a cell is a Python int (0..255) or a SymInt constrained to 0..255.  A SymStr is its
utf-8 encoding (a cell list) plus a character count.  Lengths are concrete on a path (a harness obtains them from
ctx.idx, i.e. forked by the solver over a stated range); every byte VALUE is a solver variable, so one path decides a
framing obligation for all contents of that shape.  utf-8 well-formedness of the cells is not modelled: the codec
under test treats string bytes as opaque apart from NUL, and `decode` returns the cells unchanged.

Neither class derives from bytes / str (CPython would read the C payload); library modules see them through the
`str` / `bytes` class shims (isinstance) installed by `rope_shims()`.
"""
import builtins as _bi
import z3
from . import symx
from .symx import SymInt, SymBool, Inconclusive


def _cells_of(x):
    if isinstance(x, SymBytes):
        return list(x.cells)
    if isinstance(x, (bytes, bytearray, memoryview)):
        return list(bytes(x))
    raise TypeError(f'cannot use {type(x).__name__} as bytes')


def _is_conc(c):
    return isinstance(c, _bi.int)


def mk_bytes(cells):
    """bytes if every cell is concrete, else SymBytes"""
    cells = list(cells)
    if all(_is_conc(c) for c in cells):
        return bytes(cells)
    return SymBytes(cells)


def cell_eq(a, b):
    """-> bool or z3 BoolRef"""
    if _is_conc(a) and _is_conc(b):
        return a == b
    return symx._t(a) == symx._t(b)


def _decide(cond):
    """branch on a bool / z3 condition through the current context"""
    if isinstance(cond, bool):
        return cond
    return bool(SymBool(cond))


class SymBytes:
    def __init__(self, cells):
        self.cells = list(cells)

    # --- size / truth
    def __len__(self):
        return len(self.cells)

    def __bool__(self):
        return len(self.cells) > 0

    def __iter__(self):
        return iter(self.cells)

    # --- concatenation
    def __add__(self, other):
        try:
            return mk_bytes(self.cells + _cells_of(other))
        except TypeError:
            return NotImplemented

    def __radd__(self, other):
        try:
            return mk_bytes(_cells_of(other) + self.cells)
        except TypeError:
            return NotImplemented

    __iadd__ = __add__

    def __mul__(self, n):
        return mk_bytes(self.cells * int(n))

    # --- access
    def __getitem__(self, i):
        if isinstance(i, slice):
            idx = slice(*[None if v is None else int(v) for v in (i.start, i.stop, i.step)])
            return mk_bytes(self.cells[idx])
        return self.cells[int(i)]

    def __contains__(self, item):
        if isinstance(item, _bi.int):
            needle = [item]
        else:
            needle = _cells_of(item)
        if len(needle) != 1:
            raise Inconclusive('SymBytes.__contains__ with a needle longer than one byte')
        conds = [cell_eq(c, needle[0]) for c in self.cells]
        if any(c is True for c in conds):
            return True
        sym = [c for c in conds if not isinstance(c, bool)]
        if not sym:
            return False
        return _decide(z3.Or(*sym))

    def startswith(self, prefix):
        p = _cells_of(prefix)
        if len(p) > len(self.cells):
            return False
        return _decide(eq_cells(self.cells[:len(p)], p))

    def replace(self, old, new):
        old, new = _cells_of(old), _cells_of(new)
        if len(old) != 1:
            raise Inconclusive('SymBytes.replace with a pattern longer than one byte')
        out = []
        for c in self.cells:
            if _decide(cell_eq(c, old[0])):
                out.extend(new)
            else:
                out.append(c)
        return mk_bytes(out)

    def decode(self, encoding='utf-8', errors='strict'):
        return SymStr(self.cells)

    # --- comparison
    def __eq__(self, other):
        try:
            o = _cells_of(other)
        except TypeError:
            return False
        if len(o) != len(self.cells):
            return False
        c = eq_cells(self.cells, o)
        return c if isinstance(c, bool) else SymBool(c)

    def __ne__(self, other):
        r = self.__eq__(other)
        return (not r) if isinstance(r, bool) else SymBool(z3.Not(r.e))

    __hash__ = None

    def __repr__(self):
        return 'SymBytes(' + ' '.join(('%02x' % c) if _is_conc(c) else '??' for c in self.cells) + ')'


def eq_cells(a, b):
    """-> bool / z3 term: the two cell lists are equal"""
    if len(a) != len(b):
        return False
    cs = [cell_eq(x, y) for x, y in zip(a, b)]
    if any(c is False for c in cs):
        return False
    sym = [c for c in cs if not isinstance(c, bool)]
    if not sym:
        return True
    return z3.And(*sym) if len(sym) > 1 else sym[0]


class SymStr:
    """utf-8 cells + character count (nchars <= number of cells <= 4 * nchars)"""

    def __init__(self, cells, nchars=None):
        self.cells = list(cells)
        self.nchars = nchars

    def encode(self, encoding='utf-8', errors='strict'):
        enc = encoding.lower().replace('_', '-')
        if enc == 'ascii':
            sym = [symx._t(c) >= 128 for c in self.cells if not _is_conc(c)]
            if any(_is_conc(c) and c >= 128 for c in self.cells) or (sym and _decide(z3.Or(*sym))):
                raise UnicodeEncodeError('ascii', '?', 0, 1, 'ordinal not in range(128)')
            return mk_bytes(self.cells)
        if enc not in ('utf-8', 'utf8'):
            raise Inconclusive(f'SymStr.encode({encoding!r})')
        return mk_bytes(self.cells)

    def __len__(self):
        return len(self.cells) if self.nchars is None else int(self.nchars)

    def __bool__(self):
        return len(self.cells) > 0

    def _other(self, other):
        if isinstance(other, SymStr):
            return other.cells
        if isinstance(other, _bi.str):
            return list(other.encode('utf-8'))
        return None

    def __eq__(self, other):
        o = self._other(other)
        if o is None:
            return False
        c = eq_cells(self.cells, o)
        return c if isinstance(c, bool) else SymBool(c)

    def __ne__(self, other):
        r = self.__eq__(other)
        return (not r) if isinstance(r, bool) else SymBool(z3.Not(r.e))

    __hash__ = None

    def startswith(self, prefix):
        p = self._other(prefix)
        if p is None:
            raise TypeError('startswith')
        if len(p) > len(self.cells):
            return False
        return _decide(eq_cells(self.cells[:len(p)], p))

    def __repr__(self):
        return 'SymStr<' + ''.join(chr(c) if _is_conc(c) and 32 <= c < 127 else '?' for c in self.cells) + '>'

    __str__ = __repr__

    def __format__(self, spec):
        return repr(self)


# ------------------------------------------------------------------ shims

class _StrMeta(type):
    def __instancecheck__(cls, x):
        return isinstance(x, (_bi.str, SymStr))

    def __call__(cls, *a, **k):
        return _bi.str(*a, **k)

    def __eq__(cls, o):
        return o is cls or o is _bi.str

    def __hash__(cls):
        return hash(_bi.str)


class StrShim(metaclass=_StrMeta):
    pass


class _BytesMeta(type):
    def __instancecheck__(cls, x):
        return isinstance(x, (_bi.bytes, SymBytes))

    def __call__(cls, *a, **k):
        if len(a) == 1 and isinstance(a[0], SymBytes):
            return a[0]
        if a and isinstance(a[0], SymStr):
            return a[0].encode(*a[1:], **k)
        return _bi.bytes(*a, **k)

    def __eq__(cls, o):
        return o is cls or o is _bi.bytes

    def __hash__(cls):
        return hash(_bi.bytes)


class BytesShim(metaclass=_BytesMeta):
    pass


ROPE_MODULES = ('sc3.base._osclib', 'sc3.base._oscinterface', 'sc3.base.netaddr')


def rope_shims(struct_shim=None):
    """symx.shims() plus str / bytes class shims (and optionally a struct shim) in the OSC modules"""
    extra = {}
    for m in ROPE_MODULES:
        extra[m] = {'str': StrShim, 'bytes': BytesShim}
    if struct_shim is not None:
        extra['sc3.base._osclib']['struct'] = struct_shim
    return symx.shims(extra=extra)


def sym_bytes(ctx, name, n, lo=0, hi=255):
    """n fresh symbolic byte cells"""
    return [ctx.int(f'{name}_{i}', lo, hi) for i in range(n)]
