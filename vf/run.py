"""Check plumbing: parallel jobs, evidence, known findings, replay, exit codes.

Exit codes: 0 = held on everything explored; 1 = VIOLATION (replayed against the real code); 3 = inconclusive /
harness error (unknown, truncated, counterexample that does not reproduce).
"""
import hashlib
import importlib
import inspect
import json
import multiprocessing as mp
import os
import subprocess
import sys
import time
import traceback

ROOT = os.path.dirname(os.path.dirname(os.path.abspath(__file__)))
WORK = os.path.join(ROOT, 'work')
NPROC = int(os.environ.get('VERIF_NPROC', '0')) or min(16, os.cpu_count() or 4)


def init_sc3(mode):
    """One process hosts one sc3 mode."""
    import logging
    import warnings
    warnings.simplefilter('ignore')
    import sc3
    if mode in ('rt', 'nrt'):
        if mode == 'rt':
            # use a private port range so that concurrently running checks do not collide
            sc3.LIB_PORT = 20000 + (os.getpid() % 20000)
            sc3.LIB_PORT_RANGE = 50
        sc3.init(mode, verbosity='CRITICAL', blocking=True)
    logging.disable(logging.CRITICAL)


def _worker_init(mode, modname):
    sys.setrecursionlimit(10000)
    try:
        import faulthandler
        import signal
        faulthandler.register(signal.SIGUSR1, all_threads=True)      # kill -USR1 <worker> dumps its stacks to stderr
    except Exception:
        pass
    init_sc3(mode)
    importlib.import_module(modname)


def _worker_run(arg):
    modname, funcname, job = arg
    t0 = time.time()
    try:
        mod = importlib.import_module(modname)
        res = getattr(mod, funcname)(job)
        res['job'] = job if _jsonable(job) else repr(job)
        res['job_wall'] = time.time() - t0
        return res
    except BaseException as e:  # noqa
        return {'job': repr(job), 'harness_error': f'{type(e).__name__}: {e}\n' + traceback.format_exc()[-1500:]}


def _jsonable(x):
    try:
        json.dumps(x)
        return True
    except Exception:
        return False


def run_jobs(modname, funcname, jobs, mode, nproc=None, on_result=None):
    """Run jobs (each a picklable description) in a pool of fresh processes that host sc3 in `mode`."""
    nproc = nproc or NPROC
    jobs = list(jobs)
    if not jobs:
        return []
    ctx = mp.get_context('fork')
    out = []
    with ctx.Pool(min(nproc, len(jobs)), initializer=_worker_init, initargs=(mode, modname)) as pool:
        for r in pool.imap_unordered(_worker_run, [(modname, funcname, j) for j in jobs], chunksize=1):
            out.append(r)
            if on_result:
                on_result(r)
        pool.terminate()
    return out


def src_hash(objs):
    """qualified name -> sha1 of current source, for evidence ('functions encoded')."""
    out = {}
    for o in objs:
        try:
            name = f'{o.__module__}.{o.__qualname__}'
        except AttributeError:
            name = repr(o)
        try:
            src = inspect.getsource(o)
            out[name] = hashlib.sha1(src.encode()).hexdigest()[:12]
        except Exception:
            out[name] = 'unavailable'
    return out


def load_known():
    p = os.path.join(ROOT, 'known_findings.json')
    if not os.path.exists(p):
        return []
    return json.load(open(p))


class Check:
    def __init__(self, pid, level, tier, seed=0):
        self.pid = pid
        self.level = level
        self.tier = tier
        self.seed = seed
        self.t0 = time.time()
        self.parts = {}            # name -> aggregated stats dict
        self.violations = []       # dicts with 'what', 'key', 'replay' (record) ...
        self.inconclusive = []
        self.assumptions = []
        self.bounds = {}
        self.functions = {}
        self.samples = []
        self.extra = {}
        self.known = [k for k in load_known() if k.get('property') == pid]
        self.programs = 0
        self.states = 0
        self.transitions = 0
        self.traces_validated = 0

    # ---- aggregation of symx stats dicts coming back from jobs
    def add(self, part, res):
        if 'harness_error' in res:
            self.inconclusive.append(f'{part}: harness error: {res["harness_error"]} in job {str(res.get("job"))[:300]}')
            return
        agg = self.parts.setdefault(part, dict(jobs=0, paths=0, aborted=0, queries=0, solver_s=0.0, obligations=0,
                                               discharged=0, nontrivial=0, notes={}, wall=0.0))
        agg['jobs'] += 1
        for k in ('paths', 'aborted', 'queries', 'obligations', 'discharged', 'nontrivial'):
            agg[k] += res.get(k, 0)
        agg['solver_s'] += res.get('solver_s', 0.0)
        agg['wall'] += res.get('wall', 0.0)
        for k, v in (res.get('notes') or {}).items():
            agg['notes'][k] = agg['notes'].get(k, 0) + v
        for s in (res.get('samples') or [])[:2]:
            if len(self.samples) < 12:
                self.samples.append(s)
        if res.get('truncated'):
            self.inconclusive.append(f'{part}: truncated (path budget) in job {str(res.get("job"))[:300]}')
        for i in res.get('inconclusive') or []:
            self.inconclusive.append(f'{part}: {i}')
        for v in res.get('violations') or []:
            v = dict(v)
            v['part'] = part
            v['job'] = res.get('job')
            self.violations.append(v)

    def require_notes(self, part, names):
        """vacuity guard: declared control classes must have been reached."""
        notes = self.parts.get(part, {}).get('notes', {})
        for n in names:
            if not notes.get(n):
                self.inconclusive.append(f'{part}: vacuity: control class "{n}" was never reached')

    # ---- finish
    def finish(self, coverage_extra=None, explanation=''):
        wall = time.time() - self.t0
        os.makedirs(os.path.join(ROOT, 'evidence'), exist_ok=True)
        tot = dict(paths=0, queries=0, obligations=0, discharged=0, solver_s=0.0, nontrivial=0, aborted=0)
        for agg in self.parts.values():
            for k in tot:
                tot[k] += agg.get(k, 0)
        # --- classify violations: known finding / new (replay) ---
        lines = []
        new_violation = []
        seen_known = {}
        not_reproduced = []
        bykey = {}
        for v in self.violations:
            key = v.get('data', {}).get('key') or v.get('what')
            bykey.setdefault(key, []).append(v)
        for key, vs in bykey.items():
            k = next((k for k in self.known if k.get('status') == 'known' and k.get('key') == key), None)
            reproduced = None
            last = None
            for v in vs[:4]:      # a few attempts per class: different workers find different witnesses
                rec = v.get('data', {}).get('replay')
                if rec is None:
                    self.inconclusive.append(f'violation without replay record: {v.get("what")}')
                    continue
                ok, path = self._replay(rec, key)
                last = path
                if ok:
                    reproduced = (path, v)
                    break
            if reproduced is None:
                if last is not None:
                    not_reproduced.append((key, last))
                continue
            if k is not None:
                seen_known[key] = k
                lines.append(f'KNOWN-FINDING: property={self.pid} {k.get("what", key)}')
                continue
            new_violation.append((key, reproduced[0], reproduced[1]))
        for key, path in not_reproduced:
            self.inconclusive.append(f'counterexample did not reproduce on the real code (key={key}, replay={path})')
        for key, path, v in new_violation:
            lines.append(f'VIOLATION property={self.pid} replay={path}')
        code = 1 if new_violation else (3 if self.inconclusive else 0)
        cov = {
            'evaluations': tot['paths'],
            'distinct_nontrivial': tot['nontrivial'],
            'rule': 'one evaluation = one feasible path of the real code under the symbolic harness (a class of inputs '
                    'sharing every branch decision); non-trivial = a path on which at least one obligation was '
                    'discharged by the solver; paths are distinct by construction (distinct decision vectors)',
            'samples': self.samples[:12] or [{'note': 'no sample recorded'}],
            'obligations': tot['obligations'],
            'discharged': tot['discharged'],
            'solver_queries': tot['queries'],
            'solver_s': round(tot['solver_s'], 3),
            'paths_aborted_infeasible_or_outside_assumptions': tot['aborted'],
            'parts': self.parts,
            'bounds': self.bounds,
            'functions_encoded': self.functions,
            'exhaustive': not self.inconclusive,
            'explanation': explanation,
            'known_findings_reproduced': sorted(seen_known),
            'inconclusive': self.inconclusive[:20],
            'new_violations': [{'key': k, 'replay': p, 'what': v.get('what'), 'model': v.get('model')}
                               for k, p, v in new_violation][:10],
            'trusted_base': ['z3 5.1 (wheel)', 'CPython 3.12', 'vf/symx.py proxies and shims',
                             'Real-for-float abstraction'],
            'checker_cmd': f'./check {self.pid} --tier {self.tier}',
        }
        if self.level == 'translation_validation':
            cov['programs'] = self.programs or tot['paths']
            cov['disagreements_checked'] = tot['obligations']
        if self.level == 'model_checking':
            cov['states'] = max(1, self.states or tot['paths'])
            cov['transitions'] = max(1, self.transitions or tot['queries'])
            cov['traces_validated_against_impl'] = self.traces_validated or tot['paths']
        if coverage_extra:
            cov.update(coverage_extra)
        ev = {
            'property_id': self.pid, 'tier': self.tier, 'seed': self.seed, 'level': self.level,
            'coverage': cov, 'assumptions': self.assumptions, 'wall_s': round(wall, 2),
            'violations': len(new_violation),
        }
        with open(os.path.join(ROOT, 'evidence', f'{self.pid}.json'), 'w') as f:
            json.dump(ev, f, indent=1, default=str)
            f.write('\n')
        for ln in lines:
            print(ln)
        print(f'[{self.pid} {self.tier}] paths={tot["paths"]} obligations={tot["obligations"]} '
              f'discharged={tot["discharged"]} queries={tot["queries"]} solver_s={tot["solver_s"]:.1f} '
              f'wall={wall:.1f}s exit={code}')
        for i in self.inconclusive[:10]:
            print('INCONCLUSIVE:', i[:2000])
        return code

    def _replay(self, rec, key):
        """Write the replay record and run it in a fresh process against the unshimmed real code."""
        os.makedirs(os.path.join(WORK, 'replays'), exist_ok=True)
        rec = dict(rec)
        rec['property'] = self.pid
        rec['key'] = key
        h = hashlib.sha1(json.dumps(rec, sort_keys=True, default=str).encode()).hexdigest()[:10]
        path = os.path.join(WORK, 'replays', f'{self.pid}_{h}.json')
        with open(path, 'w') as f:
            json.dump(rec, f, indent=1, default=str)
        try:
            p = subprocess.run([sys.executable, '-m', 'vf.cli', 'replay', path], cwd=ROOT, capture_output=True,
                               text=True, timeout=120)
            ok = p.returncode == 1 and 'REPRODUCED' in p.stdout
        except subprocess.TimeoutExpired:
            ok = bool(rec.get('timeout_is_violation'))
        return ok, path
