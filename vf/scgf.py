"""Independent SCgf version-2 reader, structural validator and opcode tables (nothing imported from sc3).

Format (SuperCollider "Synth Definition File Format", version 2):
  'SCgf' int32 version=2 int16 ndefs, then per definition:
  pstring name; int32 K, K x float32 constants; int32 P, P x float32 initial parameter values;
  int32 N, N x (pstring name, int32 index); int32 U, U x ugen-spec; int16 V, V x (pstring name, P x float32)
  ugen-spec: pstring class, int8 rate, int32 I, int32 O, int16 special, I x (int32 ugen, int32 output), O x int8 rate
"""
import io
import struct

# plugin_interface/Opcodes.h (server) -- transcribed independently of sc3/_specialindex.py
UNARY = ['neg', 'not', 'isNil', 'notNil', 'bitNot', 'abs', 'asFloat', 'asInt', 'ceil', 'floor', 'frac', 'sign',
         'squared', 'cubed', 'sqrt', 'exp', 'reciprocal', 'midicps', 'cpsmidi', 'midiratio', 'ratiomidi', 'dbamp',
         'ampdb', 'octcps', 'cpsoct', 'log', 'log2', 'log10', 'sin', 'cos', 'tan', 'asin', 'acos', 'atan', 'sinh',
         'cosh', 'tanh', 'rand', 'rand2', 'linrand', 'bilinrand', 'sum3rand', 'distort', 'softclip', 'coin',
         'digitValue', 'silence', 'thru', 'rectWindow', 'hanWindow', 'welWindow', 'triWindow', 'ramp', 'scurve']
BINARY = ['+', '-', '*', 'div', '/', 'mod', '==', '!=', '<', '>', '<=', '>=', 'min', 'max', 'bitAnd', 'bitOr',
          'bitXor', 'lcm', 'gcd', 'round', 'roundUp', 'trunc', 'atan2', 'hypot', 'hypotApx', 'pow', 'leftShift',
          'rightShift', 'unsignedRightShift', 'fill', 'ring1', 'ring2', 'ring3', 'ring4', 'difsqr', 'sumsqr',
          'sqrsum', 'sqrdif', 'absdif', 'thresh', 'amclip', 'scaleneg', 'clip2', 'excess', 'fold2', 'wrap2',
          'firstArg', 'rrand', 'exprand']
UNARY_INDEX = {n: i for i, n in enumerate(UNARY)}
BINARY_INDEX = {n: i for i, n in enumerate(BINARY)}


class FormatError(Exception):
    pass


class _R:
    def __init__(self, b):
        self.b = bytes(b)
        self.p = 0

    def take(self, n):
        if self.p + n > len(self.b):
            raise FormatError(f'truncated: need {n} bytes at offset {self.p}, have {len(self.b) - self.p}')
        r = self.b[self.p:self.p + n]
        self.p += n
        return r

    def u8(self):
        return self.take(1)[0]

    def i8(self):
        return struct.unpack('b', self.take(1))[0]

    def i16(self):
        return struct.unpack('>h', self.take(2))[0]

    def i32(self):
        return struct.unpack('>i', self.take(4))[0]

    def f32(self):
        return struct.unpack('>f', self.take(4))[0]

    def pstr(self):
        n = self.u8()
        raw = self.take(n)
        try:
            return raw.decode('ascii')
        except UnicodeDecodeError:
            raise FormatError('non-ASCII pascal string')


def parse(b):
    """bytes -> list of definitions (dicts); raises FormatError if the bytes are not exactly one SCgf-2 file"""
    r = _R(b)
    if r.take(4) != b'SCgf':
        raise FormatError('bad magic')
    if r.i32() != 2:
        raise FormatError('version is not 2')
    nd = r.i16()
    if nd < 0:
        raise FormatError('negative definition count')
    defs = []
    for _ in range(nd):
        d = {'name': r.pstr()}
        k = r.i32()
        if k < 0:
            raise FormatError('negative constant count')
        d['consts'] = [r.f32() for _ in range(k)]
        p = r.i32()
        if p < 0:
            raise FormatError('negative parameter count')
        d['params'] = [r.f32() for _ in range(p)]
        n = r.i32()
        if n < 0:
            raise FormatError('negative parameter-name count')
        d['pnames'] = [(r.pstr(), r.i32()) for _ in range(n)]
        u = r.i32()
        if u < 0:
            raise FormatError('negative unit count')
        ugens = []
        for _ in range(u):
            g = {'cls': r.pstr(), 'rate': r.i8()}
            ni, no = r.i32(), r.i32()
            if ni < 0 or no < 0:
                raise FormatError('negative input/output count')
            g['spec'] = r.i16()
            g['ins'] = [(r.i32(), r.i32()) for _ in range(ni)]
            g['outs'] = [r.i8() for _ in range(no)]
            ugens.append(g)
        d['ugens'] = ugens
        v = r.i16()
        if v < 0:
            raise FormatError('negative variant count')
        d['variants'] = [(r.pstr(), [r.f32() for _ in range(p)]) for _ in range(v)]
        defs.append(d)
    if r.p != len(r.b):
        raise FormatError(f'{len(r.b) - r.p} trailing bytes')
    return defs


def validate(d):
    """structural well-formedness of one parsed definition; returns list of problems (empty = ok)"""
    probs = []
    nconst = len(d['consts'])
    for i, u in enumerate(d['ugens']):
        if u['rate'] not in (0, 1, 2, 3):
            probs.append(f'unit {i} {u["cls"]}: rate byte {u["rate"]}')
        for k, (ui, oi) in enumerate(u['ins']):
            if ui == -1:
                if not (0 <= oi < nconst):
                    probs.append(f'unit {i} {u["cls"]} input {k}: constant index {oi} out of range ({nconst})')
            elif ui < 0:
                probs.append(f'unit {i} {u["cls"]} input {k}: unit index {ui}')
            elif ui >= i:
                probs.append(f'unit {i} {u["cls"]} input {k}: refers to unit {ui} which is not strictly earlier')
            elif not (0 <= oi < len(d['ugens'][ui]['outs'])):
                probs.append(f'unit {i} {u["cls"]} input {k}: output {oi} of unit {ui} '
                             f'({d["ugens"][ui]["cls"]}) does not exist')
        for o in u['outs']:
            if o not in (0, 1, 2, 3):
                probs.append(f'unit {i} {u["cls"]}: output rate byte {o}')
        if u['cls'] == 'BinaryOpUGen' and not (0 <= u['spec'] < len(BINARY)):
            probs.append(f'unit {i}: binary opcode {u["spec"]}')
        if u['cls'] == 'UnaryOpUGen' and not (0 <= u['spec'] < len(UNARY)):
            probs.append(f'unit {i}: unary opcode {u["spec"]}')
    np_ = len(d['params'])
    names = set()
    for nm, idx in d['pnames']:
        if not (0 <= idx < max(np_, 1)) or (np_ == 0):
            probs.append(f'parameter name {nm!r}: index {idx} outside the {np_} parameter slots')
        if nm in names:
            probs.append(f'parameter name {nm!r} appears twice')
        names.add(nm)
    # control units cover the parameter slots
    covered = [0] * np_
    for i, u in enumerate(d['ugens']):
        if u['cls'] in ('Control', 'TrigControl', 'AudioControl', 'LagControl'):
            for k in range(len(u['outs'])):
                s = u['spec'] + k
                if 0 <= s < np_:
                    covered[s] += 1
                else:
                    probs.append(f'unit {i} {u["cls"]}: control slot {s} outside the {np_} parameter slots')
    for s, c in enumerate(covered):
        if c != 1:
            probs.append(f'parameter slot {s} is produced by {c} control outputs')
    for vn, vals in d['variants']:
        if len(vals) != np_:
            probs.append(f'variant {vn!r}: {len(vals)} values for {np_} slots')
    return probs


RATE_NAME = {0: 'scalar', 1: 'control', 2: 'audio', 3: 'demand'}
