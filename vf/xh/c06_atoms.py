"""CrossHair conditions for the OSC atom codecs (real functions of sc3.base._osclib / netaddr)."""
from sc3.base import _osclib as oli
from sc3.base.netaddr import NetAddr
from vf import oscref


def string_roundtrip(s: str) -> bool:
    """
    pre: len(s) <= 2
    post: _
    """
    try:
        d = oli.write_string(s)
    except oli.OscTypeBuildError:
        return True          # refused: allowed ("values that cannot be represented are refused")
    if len(d) % 4 != 0 or len(d) < len(s.encode('utf-8')) + 1:
        return False
    r, i = oli.get_string(d, 0)
    if i != len(d):
        return False
    if r != s:
        return False         # silently altered
    r2, i2 = oscref._str(d, 0)
    return r2 == s and i2 == len(d)


def blob_roundtrip(b: bytes) -> bool:
    """
    pre: len(b) <= 6
    post: _
    """
    try:
        d = oli.write_blob(b)
    except oli.OscTypeBuildError:
        return len(b) == 0
    if len(d) % 4 != 0:
        return False
    r, i = oli.get_blob(d, 0)
    return r == b and i == len(d) and d[:4] == len(b).to_bytes(4, 'big') and not any(d[4 + len(b):])


def strpad_covers_utf8(s: str) -> bool:
    """
    The size predicted for a string argument is never below its encoded size.
    pre: len(s) <= 2
    post: _
    """
    try:
        d = oli.write_string(s)
    except oli.OscTypeBuildError:
        return True
    a = NetAddr.__new__(NetAddr)
    pred = a._calc_msg_dgram_size(['/a', s])
    real = 4 + 4 + len(d)
    return pred >= real


def blob_size_pred(b: bytes) -> bool:
    """
    pre: 1 <= len(b) <= 6
    post: _
    """
    a = NetAddr.__new__(NetAddr)
    pred = a._calc_msg_dgram_size(['/a', b])
    real = 4 + 4 + len(oli.write_blob(b))
    return pred >= real


def int_roundtrip(v: int) -> bool:
    """
    post: _
    """
    try:
        d = oli.write_int(v)
    except oli.OscTypeBuildError:
        return not (-2 ** 31 <= v < 2 ** 31)      # refused exactly when not representable
    r, i = oli.get_int(d, 0)
    return r == v and i == 4 and -2 ** 31 <= v < 2 ** 31
