"""CrossHair condition: a malformed datagram raises nothing into the receiver (bug hunting only)."""
import warnings
warnings.simplefilter('ignore')
import logging
import sc3   # noqa
sc3.init('nrt', verbosity='CRITICAL')
logging.disable(logging.CRITICAL)
from sc3.base import main as _m   # noqa

OSCI = _m.main._osc_interface


def handle_request_never_raises(data: bytes) -> bool:
    """
    pre: len(data) <= 20
    post: _
    """
    OSCI._handle_request(bytes(data), ('127.0.0.1', 9001))
    return True
