"""CrossHair conditions at message / bundle level: the real OscInterface._build_msg/_build_bundle and NetAddr sizers
against the independent OSC 1.0 reader.  One process hosts sc3 in NRT mode."""
import struct
import warnings
warnings.simplefilter('ignore')
import sc3   # noqa
sc3.init('nrt', verbosity='CRITICAL')
from sc3.base import main as _m, _osclib as oli   # noqa
from sc3.base.netaddr import NetAddr   # noqa
from vf import oscref   # noqa

OSCI = _m.main._osc_interface
ADDR = NetAddr('127.0.0.1', 57110)


def f32(x):
    return struct.unpack('>f', struct.pack('>f', x))[0]


def representable(v):
    if isinstance(v, bool) or v is None:
        return True
    if isinstance(v, int):
        return -2 ** 31 <= v < 2 ** 31
    if isinstance(v, float):
        try:
            struct.pack('>f', v)
            return True
        except (OverflowError, struct.error):
            return False
    if isinstance(v, str):
        return '\x00' not in v
    if isinstance(v, (bytes, bytearray)):
        return len(v) > 0
    return True


def same(a, b):
    if isinstance(a, float) and isinstance(b, float):
        return a == b or (a != a and b != b)
    return a == b


def check_msg(msg, expected):
    """build msg with the real interface; decode with the independent reader and with the library's own parser;
    compare with `expected` [(tag, value)...]; the predicted size is never below the real size."""
    try:
        built = OSCI._build_msg(0.0, list(msg))
    except Exception:
        return not all(representable(v) for v in msg[1:])      # refused only if something cannot be represented
    d = built.dgram
    if len(d) % 4:
        return False
    try:
        tree = oscref.decode(d)
    except oscref.OscError:
        return False
    if tree[0] != 'msg' or tree[1] != msg[0] or len(tree[2]) != len(expected):
        return False
    for (t, v), (et, ev) in zip(tree[2], expected):
        if t != et:
            return False
        if t == 'b' and isinstance(ev, tuple):
            try:
                inner = oscref.decode(v)
            except oscref.OscError:
                return False
            if inner[0] != ev[0] or (ev[0] == 'msg' and inner[1] != ev[1]):
                return False
        elif t == '[':
            if [x for x in v] != ev:
                return False
        elif t == 'b':
            if bytes(v) != bytes(ev):
                return False
        elif not same(v, ev):
            return False
    # the library's own decoder agrees
    own = oli.OscPacket(d).messages
    if len(own) != 1 or own[0].message.address != msg[0]:
        return False
    # size prediction
    try:
        pred = ADDR._calc_msg_dgram_size(list(msg))
    except Exception:
        return False
    return pred >= len(d)


FLOATS = [0.5, -0.0, 1e40, 3.4028235e38, 1e-50, float('inf'), 0.1]      # f32 range edges; struct is C: not symbolic


def msg_scalars(s: str, i: int) -> bool:
    """
    pre: len(s) <= 2
    pre: s not in ('[', ']')
    post: _
    """
    for f in FLOATS:
        exp = [('s', s), ('i', i), ('f', f32(f) if representable(f) else 0.0), ('i', 1), ('i', 0), ('i', 0), ('i', 0)]
        if not check_msg(['/ab', s, i, f, True, False, None, []], exp):
            return False
    return True


def msg_blob_and_strings(b: bytes, s: str, t: str) -> bool:
    """
    pre: len(b) <= 5 and len(s) <= 2 and len(t) <= 2
    pre: s not in ('[', ']') and t not in ('[', ']')
    post: _
    """
    return check_msg(['/x', b, s, t], [('b', bytes(b)), ('s', s), ('s', t)])


def msg_nested(s: str, i: int) -> bool:
    """
    completion messages: message-shaped and bundle-shaped lists become blobs; bracket markers become arrays
    pre: len(s) <= 2
    pre: s not in ('[', ']')
    post: _
    """
    exp = [('b', ('msg', '/in')), ('b', ('bundle', 1)), ('[', [('i', i), ('s', s)]), ('i', 7)]
    return check_msg(['/cmd', ['/in', i, s], [None, ['/b', i]], '[', i, s, ']', 7], exp)


def bundle_sizes(s: str, b: bytes, i: int) -> bool:
    """
    bundle framing: size-prefixed elements, nested bundle, predicted size >= real size
    pre: len(s) <= 2 and 1 <= len(b) <= 5
    pre: -2 ** 31 <= i < 2 ** 31
    post: _
    """
    if '\x00' in s or s in ('[', ']'):
        return True
    els = [['/a', s, i], ['/b', b], [None, ['/c', s]]]
    try:
        built = OSCI._build_bundle(0.0, [None] + [list(e) if isinstance(e[0], str) else [e[0], list(e[1])]
                                                  for e in els])
    except (oli.OscBuildError, ValueError):
        return False
    d = built.dgram
    try:
        tree = oscref.decode(d)
    except oscref.OscError:
        return False
    if tree[0] != 'bundle' or len(tree[2]) != 3:
        return False
    if [m[1] for m in oscref.messages(tree)] != ['/a', '/b', '/c']:
        return False
    m0, m1 = oscref.messages(tree)[0][2], oscref.messages(tree)[1][2]
    if m0 != [('s', s), ('i', i)] or len(m1) != 1 or m1[0][0] != 'b' or bytes(m1[0][1]) != bytes(b):
        return False
    own = oli.OscPacket(d).messages
    if [m.message.address for m in own] != ['/a', '/b', '/c']:
        return False
    try:
        pred = ADDR._calc_bndl_dgram_size(els)
    except Exception:
        return False
    return pred >= len(d)




STRS = ['', 'a', 'abc', 'abcd', 'abcde', '\u00e9', '\u20ac\u00e9', '\U0001d11ex', 'sev\u00e9n7']


def msg_blob_int(b: bytes, i: int) -> bool:
    """
    every argument kind around a symbolic blob and a symbolic int; strings from a fixed list (1..4-byte code points,
    lengths around the padding boundaries)
    pre: len(b) <= 6
    post: _
    """
    for s in STRS:
        exp = [('b', bytes(b)), ('s', s), ('i', i), ('i', 1), ('i', 0), ('b', ('msg', '/in')), ('[', [('i', i)]),
               ('b', bytes(b))]
        if not check_msg(['/x' + s, b, s, i, True, None, ['/in', i, s, b], '[', i, ']', b], exp):
            return False
    return True


def bundle_blob_int(b: bytes, i: int) -> bool:
    """
    pre: 1 <= len(b) <= 6
    pre: -2 ** 31 <= i < 2 ** 31
    post: _
    """
    for s in STRS:
        if not bundle_sizes(s, b, i):
            return False
    return True
