"""Runner for CrossHair conditions: one subprocess per condition under a hard timeout, outputs parsed into
confirmed / refuted (with the counterexample call) / inconclusive."""
import concurrent.futures as cf
import os
import re
import subprocess
import sys
import time

ROOT = os.path.dirname(os.path.dirname(os.path.abspath(__file__)))


def run_one(target, per_condition_timeout=60, hard_timeout=None):
    """target: 'package.module.function'"""
    hard_timeout = hard_timeout or per_condition_timeout * 2 + 30
    exe = os.path.join(os.path.dirname(sys.executable), 'crosshair')
    # the tree under analysis is the one this process imports sc3 from (/repo for the registered commands)
    import importlib.util
    spec = importlib.util.find_spec('sc3')
    repo = os.path.dirname(os.path.dirname(spec.origin)) if spec and spec.origin else '/repo'
    env = dict(os.environ, PYTHONPATH=f'{ROOT}:{repo}', PYTHONWARNINGS='ignore', PYTHONDONTWRITEBYTECODE='1')
    t0 = time.time()
    try:
        p = subprocess.run([exe, 'check', '--report_all', '--per_condition_timeout', str(per_condition_timeout),
                            '--unblock=os.mkdir', target], cwd=ROOT, env=env, capture_output=True, text=True, timeout=hard_timeout)
        out = p.stdout + p.stderr
    except subprocess.TimeoutExpired:
        return {'target': target, 'status': 'inconclusive', 'detail': 'hard timeout', 'wall': time.time() - t0}
    wall = time.time() - t0
    lines = [l for l in out.splitlines() if re.search(r'\.py:\d+: (error|info|warning):', l)]
    res = {'target': target, 'wall': wall, 'raw': lines[-3:]}
    for l in lines:
        m = re.search(r'error: (.*)', l)
        if m:
            msg = m.group(1)
            call = re.search(r'when calling (.*?)(?: \(which|$)', msg)
            res.update(status='refuted', detail=msg, call=call.group(1) if call else None)
            return res
    if any('Confirmed over all paths' in l for l in lines):
        res.update(status='confirmed', detail='Confirmed over all paths')
    elif lines:
        res.update(status='inconclusive', detail=lines[-1][-200:])
    else:
        res.update(status='inconclusive', detail='no verdict: ' + out[-300:])
    return res


def run_many(targets, per_condition_timeout=60, workers=8):
    with cf.ThreadPoolExecutor(workers) as ex:
        return list(ex.map(lambda t: run_one(t, per_condition_timeout), targets))
