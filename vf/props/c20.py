"""C20 -- definition builds are deterministic, isolated and leave no residue.

(1) adversarial iteration order: `set` inside sc3.synth.ugen / sc3.synth.synthdef is replaced by a subclass whose
    iteration order is chosen by the decision tree (every permutation = every hash seed / allocation history at once);
    the bytes must equal the undisturbed build on every path.
(2) failure injection: the graph function raises at a symbolic unit index, or the input check / the writer fails;
    afterwards the build context is None, the build lock is free, a unit created outside any build belongs to no
    definition and the next build yields the baseline bytes.
(3) two builder threads: real threads under a cooperative scheduler whose hand-over points (every unit creation,
    every lock operation) are solver-driven choices; both threads' bytes must equal their sequential builds.
Run in an RT-initialised and an NRT-initialised process.
"""
import itertools
import threading
import z3
from .. import symx, scgf
from ..symx import explore, Violation, PathAbort, Inconclusive, Ctx
from ..run import Check, run_jobs, src_hash

PID = 'C20'


def M():
    from sc3.base import main as _m
    from sc3.synth import synthdef as sdf, ugen as ugn
    from sc3.synth.ugens import inout as iou, noise as nse, oscillators as ocl, line as lne
    return dict(main=_m.main, sdf=sdf, ugn=ugn, iou=iou, nse=nse, ocl=ocl, lne=lne)


# graph functions with shared sub-expressions, rewrites and several descendants per unit
def g_fan(m):
    def g(freq=440.0, amp=0.1):
        a = m['nse'].LFNoise0.ar(freq)
        b = m['nse'].LFNoise0.ar(freq * 2)
        s = a + b
        t = s * amp
        u = s - a
        v = (a * b) + t
        m['iou'].Out.ar(0, [t, u, v, s + u + v])
    return g


def g_sum(m):
    def g(amp=0.2):
        xs = [m['nse'].LFNoise0.ar(100 + i) for i in range(4)]
        mix = xs[0] + xs[1] + xs[2] + xs[3]
        m['iou'].Out.ar(0, mix * amp)
        m['iou'].Out.ar(1, -xs[0] + xs[1])
    return g


def g_small(m):
    def g(f=300.0):
        a = m['ocl'].SinOsc.ar(f)
        m['iou'].Out.ar(0, a * a + a)
    return g


def g_wide(m):
    """width-first units (seed, local buffer) next to ordinary ones"""
    def g(f=200.0):
        from sc3.synth.ugens import noise as nse_, bufio as bio
        nse_.RandSeed.ir(1, 7)
        buf = bio.LocalBuf(64, 1)
        a = m['nse'].LFNoise0.ar(f)
        b = bio.PlayBuf.ar(1, buf)
        m['iou'].Out.ar(0, a * 0.5 + b)
    return g


def g_dead(m):
    """an unused product whose two operands share a sum (dead-code elimination meets the sum optimiser)"""
    def g(f=120.0):
        x, y, w = [m['nse'].LFNoise0.ar(f + i) for i in range(3)]
        s_ = x + y
        q = s_ * 0.5
        p = s_ + w
        p * q                      # never used; q is read by nothing else
        m['iou'].Out.ar(0, p)
    return g


GRAPHS = {'fan': g_fan, 'sum': g_sum, 'small': g_small, 'dead': g_dead}
HIST_GRAPHS = {'sum': g_sum, 'small': g_small, 'wide': g_wide}


def g_pre(m):
    def g(table, f=210.0):
        m['iou'].Out.ar(0, m['nse'].LFNoise0.ar(f) * table)
    return g


def g_param(m):
    # a parameter without a default: a metadata spec named like it would supply one
    def g(freq, amp=0.1):
        m['iou'].Out.ar(0, m['nse'].LFNoise0.ar(freq) * amp)
    return g


HIST_GRAPHS['param'] = g_param


def baseline(m, gname):
    sd = m['sdf'].SynthDef('det', GRAPHS[gname](m))
    return bytes(sd.as_bytes())


# ------------------------------------------------------------------ (1) adversarial set order

class AdvSet(set):
    def __iter__(self):
        items = sorted(set.__iter__(self), key=lambda x: getattr(x, '_synth_index', 0) if not isinstance(x, int)
                       else x)
        ctx = Ctx.cur
        out = []
        while items:
            i = ctx.choose('setorder', len(items)) if (ctx is not None and len(items) > 1) else 0
            out.append(items.pop(i))
        return iter(out)


def order_scenario(ctx, gname):
    m = M()
    rec = {'mode': j_mode(), 'kind': 'order', 'graph': gname}

    def data(sub):
        return {'key': f'c20:order:{sub}', 'replay': dict(rec, sub=sub)}
    cur = Ctx.cur
    Ctx.cur = None
    try:
        base = baseline(m, gname)
    finally:
        Ctx.cur = cur
    ugn, sdf = m['ugn'], m['sdf']
    saved = (ugn.__dict__.get('set', symx._MISSING), sdf.__dict__.get('set', symx._MISSING))
    ugn.set = AdvSet
    sdf.set = AdvSet
    try:
        sd = sdf.SynthDef('det', GRAPHS[gname](m))
        b = bytes(sd.as_bytes())
    except (PathAbort, Inconclusive, Violation):
        raise
    except Exception as e:
        raise Violation(f'build fails under a different set iteration order: {type(e).__name__}: {e}', None,
                        data('raises'))
    finally:
        for mod, v in zip((ugn, sdf), saved):
            if v is symx._MISSING:
                del mod.set
            else:
                mod.set = v
    if b != base:
        raise Violation('definition bytes depend on set iteration order (hash seed / allocation history)', None,
                        data('bytes'))
    ctx.obligations += 1
    ctx.discharged += 1
    ctx.note('order:' + gname)
    return {'graph': gname, 'bytes': len(b)}


_MODE = {'m': 'nrt'}


def j_mode():
    return _MODE['m']


# ------------------------------------------------------------------ (2) failure injection

class Boom(Exception):
    pass


def failure_scenario(ctx, kind):
    m = M()
    main, sdf, ugn, nse, iou, ocl = m['main'], m['sdf'], m['ugn'], m['nse'], m['iou'], m['ocl']
    rec = {'mode': j_mode(), 'kind': 'failure', 'fail': kind, 'names': ['k']}

    def data(sub):
        return {'key': f'c20:failure:{kind}:{sub}', 'replay': dict(rec, sub=sub)}
    base = baseline(m, 'sum')
    k = int(ctx.idx('k', 0, 5)) if kind == 'graph' else int(ctx.idx('k', 0, 11)) if kind == 'desc-trunc' else 0

    def bad_graph(amp=0.3):
        xs = []
        for i in range(5):
            if kind == 'graph' and i == k:
                raise Boom('graph function fails')
            xs.append(nse.LFNoise0.ar(200 + i))
        if kind == 'graph':
            raise Boom('graph function fails at the end')
        if kind == 'input-check':
            iou.Out.ar(0, nse.LFNoise0.kr(5))          # control-rate signal into an audio-rate output
        elif kind == 'nan':
            iou.Out.ar(0, xs[0] * float('nan'))
        elif kind == 'bad-arg':
            iou.Out.ar(0, ocl.SinOsc.ar('not a number'))
        elif kind == 'writer':
            iou.Out.ar(0, xs[0])
    raised = None
    try:
        if kind == 'writer':
            sd = sdf.SynthDef('w' * 300, bad_graph)    # the name does not fit a pascal string: the writer fails
            sd.as_bytes()
        elif kind == 'signature':
            sdf.SynthDef('sig', lambda *args: None)
        elif kind in ('desc-unit', 'desc-trunc'):
            # a description READ that fails: it runs under the build lock with a dummy definition as build context
            import io
            from sc3.synth import synthdesc as sdc
            ref = bytes(base)
            if kind == 'desc-unit':
                unit = b'LFNoise0'
                if unit not in ref:
                    raise PathAbort('unit name not in the bytes')
                bad = ref.replace(unit, b'LFNoisx0'[:len(unit)])
            else:
                bad = ref[:10 + (k * (len(ref) - 10)) // 12]
            sdc.SynthDesc._read_stream(io.BytesIO(bad))
        else:
            sdf.SynthDef('bad', bad_graph)
    except Exception as e:
        raised = e
    if raised is None and kind != 'desc-trunc':       # a cut inside the trailing variants may still read
        raise Violation(f'failing build ({kind}) did not raise', None, data('no-raise'))
    if main._current_synthdef is not None:
        raise Violation(f'after a build that failed ({kind}: {type(raised).__name__}) the build context still points '
                        f'at definition {main._current_synthdef.name!r}', None, data('context'))
    if main._def_build_lock.locked():
        raise Violation(f'after a build that failed ({kind}) the build lock is still held', None, data('lock'))
    stray = nse.LFNoise0.ar(999)
    if stray._synthdef is not None:
        raise Violation('a unit created outside any build after the failure belongs to a definition', None,
                        data('stray'))
    try:
        again = baseline(m, 'sum')
    except Exception as e:
        raise Violation(f'the build after a failed build raises {type(e).__name__}: {e}', None, data('next-raises'))
    if again != base:
        raise Violation('the build after a failed build yields different bytes', None, data('next-bytes'))
    ctx.obligations += 1
    ctx.discharged += 1
    ctx.note('failure:' + kind)
    return {'fail': kind, 'k': k}


# ------------------------------------------------------------------ (2b) histories of builds, reads and failures

HIST_OPS = ['build sum', 'build small', 'build wide', 'read desc', 'add', 'fail', 'build prepend', 'build param',
            'annotate']


def history_scenario(ctx, nops):
    """after ANY history of successful builds, description reads (SynthDesc.new_from / SynthDef.add) and failing
    builds: no build context is left, the lock is free, a stray unit belongs to no definition, and every graph still
    compiles to the bytes it gave in a fresh state"""
    m = M()
    main, sdf, nse = m['main'], m['sdf'], m['nse']
    from sc3.synth import synthdesc as sdc
    rec = {'mode': j_mode(), 'kind': 'history', 'nops': nops}
    hist = []

    def data(sub):
        return {'key': f'c20:history:{sub}', 'replay': dict(rec, sub=sub, history=list(hist))}

    def build(gname):
        return bytes(sdf.SynthDef('det', HIST_GRAPHS[gname](m)).as_bytes())
    base = {}
    for gname in HIST_GRAPHS:
        try:
            base[gname] = build(gname)
        except Exception as e:
            raise Violation(f'graph {gname} does not build in a fresh state: {type(e).__name__}: {e}', None, data('base'))
    pre_list = [0.5]
    base['prepend'] = bytes(sdf.SynthDef('det', g_pre(m), prepend=[0.5]).as_bytes())
    last = None
    for i in range(nops):
        op = HIST_OPS[ctx.choose(f'op{i}', len(HIST_OPS))]
        hist.append(op)
        try:
            if op == 'build prepend':
                # the caller's prepend list is an argument, not scratch space: the same list object serves every build
                got = bytes(sdf.SynthDef('det', g_pre(m), prepend=pre_list).as_bytes())
                if pre_list != [0.5]:
                    raise Violation(f'a build rewrote the prepend list it was given: {pre_list!r}', None,
                                    data('prepend-mutated'))
                if got != base['prepend']:
                    raise Violation(f'the graph with a prepended argument compiles to different bytes after the history '
                                    f'{hist} ({len(got)} vs {len(base["prepend"])} bytes)', None, data('bytes'))
            elif op.startswith('build'):
                gname = op.split()[1]
                last = sdf.SynthDef('h%d' % i, HIST_GRAPHS[gname](m))
                got = bytes(sdf.SynthDef('det', HIST_GRAPHS[gname](m)).as_bytes())
                if got != base[gname]:
                    raise Violation(f'graph {gname} compiles to different bytes after the history {hist} than in a '
                                    f'fresh state ({len(got)} vs {len(base[gname])} bytes)', None, data('bytes'))
            elif op == 'annotate':
                # the user fills in the public metadata / variants dictionaries of a definition that was built
                # without them: that concerns this definition only
                if last is None:
                    raise PathAbort('nothing built yet')
                last.metadata['specs'] = {'freq': 330.0, 'amp': 0.7}
                last.variants['alt'] = {'amp': 0.3}
            elif op == 'read desc':
                if last is None:
                    raise PathAbort('nothing built yet')
                sdc.SynthDesc.new_from(last)
            elif op == 'add':
                if last is None:
                    raise PathAbort('nothing built yet')
                last.add()
            else:
                try:
                    sdf.SynthDef('bad', lambda: m['iou'].Out.ar(0, nse.LFNoise0.kr(5)))
                except Exception:
                    pass
                else:
                    raise Violation('a control-rate signal into Out.ar was accepted', None, data('no-raise'))
        except (PathAbort, Inconclusive, Violation):
            raise
        except Exception as e:
            raise Violation(f'{op!r} raises {type(e).__name__}: {e} after the history {hist[:-1]}', None, data('raises'))
        if main._current_synthdef is not None:
            raise Violation(f'after {op!r} (history {hist}) the build context still points at a definition '
                            f'({main._current_synthdef.name!r}): units created now would join it', None, data('context'))
        if main._def_build_lock.locked():
            raise Violation(f'after {op!r} the build lock is still held', None, data('lock'))
        stray = nse.LFNoise0.ar(999)
        if stray._synthdef is not None:
            raise Violation(f'a unit created outside any build after {op!r} belongs to a definition', None, data('stray'))
    # at the end of the history every graph still compiles to its fresh-state bytes
    for gname in HIST_GRAPHS:
        try:
            got = build(gname)
        except Exception as e:
            raise Violation(f'graph {gname} raises {type(e).__name__}: {e} after the history {hist}', None, data('raises'))
        if got != base[gname]:
            raise Violation(f'graph {gname} compiles to different bytes after the history {hist} than in a fresh state '
                            f'({len(got)} vs {len(base[gname])} bytes)', None, data('bytes'))
    ctx.obligations += 1
    ctx.discharged += 1
    ctx.note('history')
    for h in set(hist):
        ctx.note('hist:' + h)
    return {'history': hist}


# ------------------------------------------------------------------ (3) two builder threads

class Coop:
    """cooperative scheduler for two real threads; hand-over points are decision-tree choices"""

    def __init__(self, ctx, budget):
        self.ctx = ctx
        self.budget = budget
        self.go = [threading.Event(), threading.Event()]
        self.done = [False, False]
        self.cur = 0
        self.err = None
        self.ident = {}
        self.switches = 0
        self.trace = []

    def me(self):
        return self.ident.get(threading.get_ident())

    def switch_to_other(self, forced=False):
        i = self.me()
        o = 1 - i
        if self.done[o]:
            if forced:
                raise Inconclusive('deadlock in the cooperative schedule')
            return
        self.trace.append((i, 'forced' if forced else 'switch'))
        self.cur = o
        self.go[i].clear()
        self.go[o].set()
        if not self.go[i].wait(20):
            raise Inconclusive('cooperative schedule stalled')

    def point(self, label=''):
        i = self.me()
        if i is None or self.err is not None:
            return
        if self.budget > 0 and not self.done[1 - i]:
            if self.ctx.choose('switch', 2):
                self.budget -= 1
                self.switches += 1
                self.switch_to_other()

    def finish(self):
        i = self.me()
        self.done[i] = True
        o = 1 - i
        if not self.done[o]:
            self.cur = o
            self.go[o].set()


class CoopLock:
    def __init__(self, coop):
        self.coop = coop
        self.owner = None

    def acquire(self, *a, **k):
        c = self.coop
        while self.owner is not None and self.owner != c.me():
            c.switch_to_other(forced=True)
        self.owner = c.me()
        c.point('acquired')
        return True

    def release(self):
        self.owner = None
        self.coop.point('released')

    def __enter__(self):
        self.acquire()
        return self

    def __exit__(self, *a):
        self.release()
        return False

    def locked(self):
        return self.owner is not None


def threads_scenario(ctx, g0, g1, budget):
    m = M()
    main, sdf = m['main'], m['sdf']
    rec = {'mode': j_mode(), 'kind': 'threads', 'g0': g0, 'g1': g1, 'budget': budget}

    def data(sub):
        return {'key': f'c20:threads:{sub}', 'replay': dict(rec, sub=sub)}
    from sc3.synth import synthdesc as sdc
    pre = {}

    def do(gname):
        """one thread's job: build a graph, or read the description of an already built definition"""
        if gname.startswith('read:'):
            dsc = sdc.SynthDesc.new_from(pre[gname])
            return repr((dsc.name, list(dsc.control_names), len(dsc.inputs), len(dsc.outputs))).encode()
        return bytes(sdf.SynthDef('det', GRAPHS[gname](m)).as_bytes())
    for gn in (g0, g1):
        if gn.startswith('read:'):
            pre[gn] = sdf.SynthDef('pre', GRAPHS[gn[5:]](m))
    base = [do(g0), do(g1)]
    coop = Coop(ctx, budget)
    saved_lock = main._def_build_lock
    saved_add = sdf.SynthDef._add_ugen
    main._def_build_lock = CoopLock(coop)

    def _add_ugen(sd, ugen):
        r = saved_add(sd, ugen)
        coop.point('unit')
        return r
    sdf.SynthDef._add_ugen = _add_ugen
    res = [None, None]
    errs = [None, None]

    def worker(i, gname):
        coop.ident[threading.get_ident()] = i
        if not coop.go[i].wait(20):
            return
        Ctx.cur = ctx
        try:
            res[i] = do(gname)
        except BaseException as e:   # noqa
            errs[i] = e
        finally:
            coop.finish()
    ts = [threading.Thread(target=worker, args=(0, g0), daemon=True),
          threading.Thread(target=worker, args=(1, g1), daemon=True)]
    try:
        for t in ts:
            t.start()
        coop.go[0].set()
        for t in ts:
            t.join(30)
        if any(t.is_alive() for t in ts):
            raise Inconclusive('builder threads did not finish')
    finally:
        main._def_build_lock = saved_lock
        sdf.SynthDef._add_ugen = saved_add
        left_ctx = main._current_synthdef
        main._current_synthdef = None
        Ctx.cur = ctx
    for e in errs:
        if isinstance(e, (PathAbort, Inconclusive)):
            raise e
    for i, e in enumerate(errs):
        if e is not None:
            raise Violation(f'concurrent build {i} raises {type(e).__name__}: {e} (schedule {coop.trace})', None,
                            data('raises'))
    if left_ctx is not None and not any(errs):
        raise Violation(f'after two concurrent builds the build context still points at a definition '
                        f'({left_ctx.name!r}): units created now would join it; schedule {coop.trace}', None,
                        data('context'))
    for i in range(2):
        if res[i] != base[i]:
            raise Violation(f'concurrent build {i} yields {len(res[i])} bytes that differ from its sequential build '
                            f'({len(base[i])} bytes); schedule {coop.trace}', None, data('bytes'))
    ctx.obligations += 1
    ctx.discharged += 1
    ctx.note('threads')
    if coop.switches:
        ctx.note('threads:switched')
    return {'graphs': [g0, g1], 'schedule': [list(x) for x in coop.trace]}


def job(j):
    _MODE['m'] = j.get('mode', 'nrt')
    if j['kind'] == 'order':
        h = lambda c: order_scenario(c, j['graph'])                              # noqa
    elif j['kind'] == 'failure':
        h = lambda c: failure_scenario(c, j['fail'])                             # noqa
    elif j['kind'] == 'history':
        h = lambda c: history_scenario(c, j['nops'])                             # noqa
    else:
        h = lambda c: threads_scenario(c, j['g0'], j['g1'], j['budget'])         # noqa
    st = explore(h, max_paths=j.get('max_paths', 40000), stop_on_violation=True)
    d = st.as_dict()
    for v in d['violations']:
        rec = v['data']['replay']
        rec['values'] = dict(v['model'])
        rec['decisions'] = v.get('decisions')
        rec['what'] = v['what']
    return d


# ------------------------------------------------------------------ replay

def replay(rec):
    import gc
    import random
    m = M()
    main, sdf, nse = m['main'], m['sdf'], m['nse']
    _MODE['m'] = rec.get('mode', 'nrt')
    kind = rec['kind']
    if kind == 'failure':
        class C:
            obligations = discharged = 0

            def idx(self, name, lo, hi):
                v = rec.get('values', {}).get(name)
                return int(v) if v is not None else lo

            def note(self, s):
                pass
        try:
            failure_scenario(C(), rec['fail'])
        except Violation as v:
            main._current_synthdef = None
            return v.what
        return None
    if kind == 'history':
        ops = list(rec.get('history', []))

        class H:
            obligations = discharged = 0

            def choose(self, name, n):
                i = int(name[2:])
                return HIST_OPS.index(ops[i]) if i < len(ops) else 0

            def note(self, s):
                pass
        try:
            history_scenario(H(), len(ops))
        except Violation as v:
            main._current_synthdef = None
            return v.what
        except PathAbort:
            return None
        finally:
            main._current_synthdef = None
        return None
    if kind == 'order':
        # real sets: iteration order of unit objects depends on their addresses; vary the allocation history
        base = baseline(m, rec['graph'])
        rnd = random.Random(1)
        for attempt in range(400):
            junk = [object() for _ in range(rnd.randint(0, 200))]
            keep = [bytearray(rnd.randint(1, 4000)) for _ in range(rnd.randint(0, 20))]
            try:
                b = baseline(m, rec['graph'])
            except Exception as e:
                return f'build raises on attempt {attempt}: {type(e).__name__}: {e}'
            del junk, keep
            if b != base:
                return f'two builds of the same graph function in one process differ (attempt {attempt}): ' \
                       f'{len(base)} vs {len(b)} bytes'
        return None
    if kind == 'threads':
        # real preemptive threads, real lock: repeated concurrent builds
        from sc3.synth import synthdesc as sdc
        pre = {}

        def do(gname):
            if gname.startswith('read:'):
                dsc = sdc.SynthDesc.new_from(pre[gname])
                return repr((dsc.name, list(dsc.control_names), len(dsc.inputs), len(dsc.outputs))).encode()
            return bytes(sdf.SynthDef('det', GRAPHS[gname](m)).as_bytes())
        for gn in (rec['g0'], rec['g1']):
            if gn.startswith('read:'):
                pre[gn] = sdf.SynthDef('pre', GRAPHS[gn[5:]](m))
        base = [do(rec['g0']), do(rec['g1'])]
        import sys
        old = sys.getswitchinterval()
        sys.setswitchinterval(1e-6)
        try:
            for attempt in range(400):
                out = [None, None]
                errs = [None, None]

                def w(i, g):
                    try:
                        out[i] = do(g)
                    except Exception as e:
                        errs[i] = e
                ts = [threading.Thread(target=w, args=(0, rec['g0'])), threading.Thread(target=w, args=(1, rec['g1']))]
                for t in ts:
                    t.start()
                for t in ts:
                    t.join(20)
                if main._current_synthdef is not None and not any(errs):
                    nm = main._current_synthdef.name
                    main._current_synthdef = None
                    return f'after two concurrent builds the build context still points at definition {nm!r} ' \
                           f'(attempt {attempt})'
                for i in range(2):
                    if errs[i] is not None:
                        return f'concurrent build {i} raises {type(errs[i]).__name__}: {errs[i]} (attempt {attempt})'
                    if out[i] != base[i]:
                        return f'concurrent build {i} differs from its sequential build (attempt {attempt}): ' \
                               f'{len(out[i] or b"")} vs {len(base[i])} bytes'
        finally:
            sys.setswitchinterval(old)
            main._current_synthdef = None
        return None
    return None


# ------------------------------------------------------------------ main

def main(tier, seed):
    from sc3.synth import synthdef as sdf, ugen as ugn
    chk = Check(PID, 'model_checking', tier, seed)
    S, G = sdf.SynthDef, ugn.SynthObject
    chk.functions = src_hash([S._build, S._init_build, S._finish_build, S._optimize_graph, S._topological_sort,
                              S._init_topo_sort, S._add_ugen, S._replace_ugen, G._arrange, G._init_topo_sort,
                              G._add_to_synth, G._perform_dead_code_elimination, ugn.BinaryOpUGen._optimize_graph])
    fails = ['graph', 'input-check', 'nan', 'bad-arg', 'writer', 'signature', 'desc-unit', 'desc-trunc']
    for mode in ('nrt', 'rt'):
        jobs = [dict(mode=mode, kind='order', graph=g) for g in GRAPHS]
        jobs += [dict(mode=mode, kind='failure', fail=f) for f in fails]
        jobs += [dict(mode=mode, kind='history', nops=3 if tier == 'quick' else 4)]
        pairs = [('small', 'sum'), ('sum', 'small'), ('sum', 'read:small'), ('read:sum', 'small')] if tier == 'quick' else \
            [(a, b) for a in GRAPHS for b in GRAPHS] + [(a, 'read:' + b) for a in GRAPHS for b in GRAPHS] + \
            [('read:sum', 'fan')]
        jobs += [dict(mode=mode, kind='threads', g0=a, g1=b, budget=2 if tier == 'quick' else 3) for a, b in pairs]
        for r in run_jobs('vf.props.c20', 'job', jobs, mode):
            chk.add(mode, r)
        chk.require_notes(mode, ['order:small', 'order:fan', 'threads', 'threads:switched', 'history'] +
                          ['hist:' + h for h in HIST_OPS] + ['failure:' + f for f in fails])
    chk.bounds = {'histories': 'every sequence of 3 (quick) / 4 operations over ' + ', '.join(HIST_OPS) + ' (graphs with and without width-first units)',
                  'set_order': 'every permutation of every set iteration in the build of graphs with <= 9 units',
                  'failures': fails + ['graph function failing at unit 0..5 (symbolic index)'],
                  'threads': '2 builder threads, hand-over possible at every unit creation and lock operation, <= 2 '
                             '(quick) / 3 voluntary switches per schedule', 'modes': ['nrt', 'rt'],
                  'outside': 'preemption at bytecode granularity between hand-over points; BaseExceptions; more than '
                             '2 threads; different PYTHONHASHSEED across processes is modelled by the set-order '
                             'permutations, not by spawning interpreters'}
    chk.assumptions = ['`set` in sc3.synth.ugen and sc3.synth.synthdef is the only source of iteration-order '
                       'nondeterminism in a build (dicts are insertion ordered)',
                       'the cooperative scheduler replaces main._def_build_lock by an equivalent lock whose blocking '
                       'hands the baton over']
    return chk.finish(explanation='decision-tree model checking of the real builder under adversarial set order, '
                                  'injected failures and two-thread schedules')
