"""C12 -- TempoClock time arithmetic and quantisation are consistent.

The real TempoClock methods run on a real instance (NRT process) whose fields are arbitrary symbolic reals subject
to the representation invariant (beat_dur * tempo == 1, bars_per_beat * beats_per_bar == 1).  The current logical
time and the physical time (main.elapsed_time, stubbed: an arbitrary real >= logical time) are distinct symbols.
Each law is a z3 validity query over all those reals; the setters are checked to re-establish the invariant, which
makes every law hold after histories of any length (inductive).
"""
import z3
from fractions import Fraction
from .. import symx
from ..symx import explore, Violation, PathAbort, SymReal
from ..run import Check, run_jobs, src_hash

PID = 'C12'
QUANTS = [1, 2, 3, 4, 5, 6, 7, 8, 0.5, 1.5, 0.25]


class FakeThread:
    """the routine that is current; its logical time is a symbol"""

    def __init__(self, seconds, clock):
        self._m_seconds = seconds
        self._clock = clock
        self.parent = None

    @property
    def _seconds(self):
        return self._m_seconds


BPBS = [4, 3, 2, 1, 5, 7, 1.5, 0.5]


def setup(ctx, on_clock=True, bpb_fixed=None):
    from sc3.base import main as _m, clock as clk, builtins as sbi
    main = _m.main
    c = clk.TempoClock(1)
    T = ctx.real('tempo', 0, None, lo_strict=True)
    c._tempo = T
    c._beat_dur = 1.0 / T
    c._base_seconds = ctx.real('base_seconds')
    c._base_beats = ctx.real('base_beats')
    bpb = ctx.real('beats_per_bar', 0, None, lo_strict=True)
    if bpb_fixed is not None:
        ctx.assume(bpb.e == z3.RealVal(Fraction(bpb_fixed)))
    c._beats_per_bar = bpb
    c._bars_per_beat = 1.0 / bpb
    c._base_bar_beat = ctx.real('base_bar_beat')
    c._base_bar = SymReal(z3.ToReal(ctx.int('base_bar').e))
    now = ctx.real('now')             # logical time of the current routine
    phys = ctx.real('phys')           # physical time (RT: >= logical); must only matter for etempo/elapsed_beats
    ctx.assume(phys.e >= now.e)
    th = FakeThread(now, c if on_clock else clk.SystemClock)
    return main, c, th, now, phys


class Env:
    def __init__(self, main, th, phys):
        self.main, self.th, self.phys = main, th, phys

    def __enter__(self):
        from sc3.base import builtins as sbi, clock as clk
        self.saved = (self.main.current_tt, self.main.elapsed_time)
        self.main.current_tt = self.th
        phys = self.phys
        self.main.elapsed_time = lambda: phys
        self.sh = symx.shims()
        self.sh.__enter__()
        return self

    def __exit__(self, *a):
        self.sh.__exit__()
        self.main.current_tt, self.main.elapsed_time = self.saved
        return False


def _eq(ctx, a, b, what, data):
    x, y = symx._coerce(symx._t(a), symx._t(b))
    ctx.prove(x == y, what, data)


def _data(law, names, **kw):
    d = {'key': f'tempoclock:{law}', 'replay': {'mode': 'nrt', 'law': law, 'names': names}}
    d['replay'].update(kw)
    return d


NAMES = ['tempo', 'base_seconds', 'base_beats', 'beats_per_bar', 'base_bar_beat', 'base_bar', 'now', 'phys']


def inv(ctx, c, what, data):
    _eq(ctx, c._beat_dur * c._tempo, 1, f'{what}: beat_dur * tempo == 1 not re-established', data)
    _eq(ctx, c._bars_per_beat * c._beats_per_bar, 1, f'{what}: bars_per_beat * beats_per_bar == 1 not re-established',
        data)
    ctx.prove(symx._t(c._tempo) > 0, f'{what}: tempo > 0', data)


def law_affine(ctx):
    main, c, th, now, phys = setup(ctx)
    b, s, d = ctx.real('b'), ctx.real('s'), ctx.real('d')
    names = NAMES + ['b', 's', 'd']
    with Env(main, th, phys):
        _eq(ctx, c.secs2beats(c.beats2secs(b)), b, 'secs2beats(beats2secs(b)) != b', _data('roundtrip-beats', names))
        _eq(ctx, c.beats2secs(c.secs2beats(s)), s, 'beats2secs(secs2beats(s)) != s', _data('roundtrip-secs', names))
        _eq(ctx, c.secs2beats(s + d) - c.secs2beats(s), d * c.tempo, 'beats do not advance at the current tempo',
            _data('rate', names))
        _eq(ctx, c.beats, c.secs2beats(now), 'beats is not the logical time converted', _data('beats-now', names))
        _eq(ctx, c.seconds, now, 'seconds is not the logical time', _data('seconds-now', names))
        _eq(ctx, c.elapsed_beats(), c.secs2beats(phys), 'elapsed_beats is not physical time converted',
            _data('elapsed-beats', names))
        _eq(ctx, c.beat_dur * c.tempo, 1, 'beat_dur is not 1/tempo', _data('beat-dur', names))
    return {'law': 'affine'}


def law_set_tempo(ctx):
    main, c, th, now, phys = setup(ctx)
    T2 = ctx.real('T2', 0, None, lo_strict=True)
    s, d = ctx.real('s'), ctx.real('d')
    names = NAMES + ['T2', 's', 'd']
    with Env(main, th, phys):
        b0 = c.beats
        c.tempo = T2
        dt = _data('set-tempo', names)
        inv(ctx, c, 'tempo setter', dt)
        _eq(ctx, c.tempo, T2, 'tempo not set', dt)
        _eq(ctx, c.beats, b0, 'tempo change is not continuous in beats at the current logical time', dt)
        _eq(ctx, c.beats2secs(b0), now, 'tempo change moved the current beat in seconds', dt)
        _eq(ctx, c.secs2beats(s + d) - c.secs2beats(s), d * T2, 'beats do not advance at the new tempo', dt)
    return {'law': 'set-tempo'}


def law_etempo(ctx):
    main, c, th, now, phys = setup(ctx)
    T2 = ctx.real('T2')
    ctx.assume(T2.e != 0)
    s, d = ctx.real('s'), ctx.real('d')
    names = NAMES + ['T2', 's', 'd']
    with Env(main, th, phys):
        e0 = c.elapsed_beats()
        c.etempo(T2)
        dt = _data('etempo', names)
        _eq(ctx, c._beat_dur * c._tempo, 1, 'etempo: beat_dur * tempo == 1 not re-established', dt)
        _eq(ctx, c.elapsed_beats(), e0, 'etempo is not continuous in beats at the current physical time', dt)
        _eq(ctx, c.secs2beats(s + d) - c.secs2beats(s), d * T2, 'beats do not advance at the new tempo', dt)
    return {'law': 'etempo'}


def law_set_beats(ctx):
    main, c, th, now, phys = setup(ctx)
    v = ctx.real('v')
    s, d = ctx.real('s'), ctx.real('d')
    names = NAMES + ['v', 's', 'd']
    with Env(main, th, phys):
        T0 = c.tempo
        c.beats = v
        dt = _data('set-beats', names)
        inv(ctx, c, 'beats setter', dt)
        _eq(ctx, c.beats, v, 'beats setter: current beat is not the value set', dt)
        _eq(ctx, c.beats2secs(v), now, 'beats setter moved the current logical second', dt)
        _eq(ctx, c.tempo, T0, 'beats setter changed the tempo', dt)
        _eq(ctx, c.secs2beats(s + d) - c.secs2beats(s), d * T0, 'beats do not advance at the tempo', dt)
    return {'law': 'set-beats'}


def _grid_checks(ctx, c, q, ph, ref, r, origin, dt):
    """r is the earliest beat >= ref congruent to ph modulo q counted from origin"""
    re_, reft = symx._t(r), symx._t(ref)
    re_, reft = symx._coerce(re_, reft)
    qq = z3.RealVal(Fraction(q))
    ctx.prove(re_ >= reft, 'next_time_on_grid is before the reference beat', dt)
    off = symx._real(re_) - symx._real(symx._t(origin)) - symx._real(symx._t(ph))
    k = z3.ToInt(off / qq)
    ctx.prove(z3.ToReal(k) * qq == off, 'next_time_on_grid is not congruent to phase modulo quant', dt)
    ctx.prove(symx._real(re_) - qq < symx._real(reft), 'next_time_on_grid is not the earliest such beat', dt)


def law_grid(ctx, qi, neg):
    main, c, th, now, phys = setup(ctx)
    q = QUANTS[qi]
    ph = ctx.real('phase')
    if neg:
        ctx.assume(z3.And(ph.e > -z3.RealVal(Fraction(q)), ph.e < 0))
    else:
        ctx.assume(z3.And(ph.e >= 0, ph.e < z3.RealVal(Fraction(q))))
    use_ref = ctx.choose('use_ref', 2)
    ref = ctx.real('ref') if use_ref else None
    names = NAMES + ['phase', 'ref']
    with Env(main, th, phys):
        dt = _data('grid', names, q=q, use_ref=use_ref)
        r = c.next_time_on_grid(q, ph, ref)
        _grid_checks(ctx, c, q, ph, ref if use_ref else c.beats, r, c.base_bar_beat, dt)
        if not use_ref:
            # play(quant) schedules exactly there; time_to_next_beat agrees
            from sc3.base import clock as clk
            sched = main._clock_scheduler
            sched.reset()
            c.play(lambda: None, clk.Quant(q, ph))
            ents = list(sched.queue)
            if len(ents) != 1:
                raise Violation('play(quant) did not queue exactly one task', None, dt)
            _eq(ctx, ents[0][0], c.beats2secs(r), 'play(quant) does not schedule at next_time_on_grid',
                _data('play-quant', names, q=q))
            sched.reset()
            _eq(ctx, c.time_to_next_beat(clk.Quant(q, ph)), r - c.beats, 'time_to_next_beat != grid - beats',
                _data('time-to-next-beat', names, q=q))
            # other spellings of the same quant: (quant, phase) pair, list; a bare number means phase 0
            for sp, rr in (((q, ph), r), ([q, ph], r), (q, c.next_time_on_grid(q, 0))):
                sched.reset()
                c.play(lambda: None, sp)
                ents = list(sched.queue)
                if len(ents) != 1:
                    raise Violation('play(quant) did not queue exactly one task', None, dt)
                _eq(ctx, ents[0][0], c.beats2secs(rr), 'play(quant) given as a pair / list / bare number does not '
                    'schedule at next_time_on_grid', _data('play-quant', names, q=q))
            sched.reset()
    return {'law': 'grid', 'q': q, 'neg_phase': bool(neg)}


def law_grid_zero(ctx):
    main, c, th, now, phys = setup(ctx)
    ph, ref = ctx.real('phase'), ctx.real('ref')
    names = NAMES + ['phase', 'ref']
    with Env(main, th, phys):
        _eq(ctx, c.next_time_on_grid(0, ph, ref), ref + ph, 'quant 0 must return refbeat + phase',
            _data('grid-zero', names))
        # every spelling of "no quantisation" schedules at the current beat
        from sc3.base import clock as clk
        sched = main._clock_scheduler
        for sp in (0, 0.0, (0, 0), [0, 0], clk.Quant(0), clk.Quant(0, 0)):
            dz = _data('play-zero', names, spelling=repr(sp))
            sched.reset()
            c.play(lambda: None, sp)
            ents = list(sched.queue)
            if len(ents) != 1:
                raise Violation(f'play(task, {sp!r}) did not queue exactly one task', None, dz)
            _eq(ctx, ents[0][0], c.beats2secs(c.beats), f'play(task, {sp!r}) does not schedule at the current beat '
                '(quant 0 = no quantisation)', dz)
            sched.reset()
            _eq(ctx, c.time_to_next_beat(sp), 0, f'time_to_next_beat({sp!r}) != 0', dz)
        try:
            c.next_time_on_grid(-1, ph, ref)
            raise Violation('negative quant accepted', None, _data('grid-negative', names))
        except ValueError:
            ctx.obligations += 1
            ctx.discharged += 1
    return {'law': 'grid-zero'}


def law_bars(ctx, bi_):
    main, c, th, now, phys = setup(ctx, bpb_fixed=BPBS[bi_])
    b, bar = ctx.real('b'), ctx.real('bar')
    names = NAMES + ['b', 'bar']
    with Env(main, th, phys):
        dt = _data('bars', names)
        _eq(ctx, c.bars2beats(c.beats2bars(b)), b, 'bars2beats(beats2bars(b)) != b', dt)
        _eq(ctx, c.beats2bars(c.bars2beats(bar)), bar, 'beats2bars(bars2beats(x)) != x', dt)
        nb = c.next_bar(b)
        nbt, bt = symx._coerce(symx._t(nb), symx._t(b))
        dn = _data('next-bar', names)
        ctx.prove(nbt >= bt, 'next_bar(b) is before b', dn)
        bars = symx._real(symx._t(c.beats2bars(nb)))
        ctx.prove(z3.ToReal(z3.ToInt(bars)) == bars, 'next_bar(b) is not a bar line', dn)
        ctx.prove(symx._real(nbt) - symx._real(symx._t(c.beats_per_bar)) < symx._real(bt),
                  'next_bar(b) is not the next bar line', dn)
        nb0 = c.next_bar()
        x, y = symx._coerce(symx._t(nb0), symx._t(c.beats))
        ctx.prove(x >= y, 'next_bar() is before the current beat', dn)
        bib = c.beat_in_bar()
        x = symx._real(symx._t(bib))
        ctx.prove(z3.And(x >= 0, x < symx._real(symx._t(c.beats_per_bar))), 'beat_in_bar outside [0, beats_per_bar)',
                  _data('beat-in-bar', names))
    return {'law': 'bars'}


def law_meter(ctx, qi, bi_):
    """beats_per_bar changed from a routine on the clock: the grid origin is the beat of the change"""
    main, c, th, now, phys = setup(ctx, on_clock=True)
    q = QUANTS[qi]
    v = ctx.real('new_bpb', 0, None, lo_strict=True)
    ctx.assume(v.e == z3.RealVal(Fraction(BPBS[bi_])))
    later = ctx.real('later', 0, None)
    names = NAMES + ['new_bpb', 'later']
    with Env(main, th, phys):
        dt = _data('meter', names, q=q)
        b_change = c.beats
        # a dependant of the clock reads it from the 'meter' notification: that is an instant like any other
        from sc3.base import model as mdl
        seen = []

        class Dep:
            pass
        dep = Dep()

        def on_meter(*a):
            seen.append(1)
            inv(ctx, c, "inside the 'meter' notification", _data('meter-notify', names, q=q))
        mdl.NotificationCenter.register(c, 'meter', dep, on_meter)
        try:
            c.beats_per_bar = v
        finally:
            mdl.NotificationCenter.unregister(c, 'meter', dep)
        if len(seen) != 1:
            raise Violation(f"a meter change notified its dependants {len(seen)} times", None,
                            _data('meter-notify', names, q=q))
        inv(ctx, c, 'beats_per_bar setter', dt)
        _eq(ctx, c.beats_per_bar, v, 'beats_per_bar not set', dt)
        _eq(ctx, c.base_bar_beat, b_change, 'base_bar_beat is not the beat of the meter change', dt)
        bb = symx._real(symx._t(c.base_bar))
        ctx.prove(z3.ToReal(z3.ToInt(bb)) == bb, 'base_bar is not a whole bar number', dt)
        _eq(ctx, c.beats2bars(b_change), c.base_bar, 'bar numbering does not restart at the meter change', dt)
        # later, quantisation counts from the change
        th._m_seconds = now + later
        r = c.next_time_on_grid(q, 0)
        _grid_checks(ctx, c, q, 0, c.beats, r, b_change, dt)
        nb = c.next_bar()
        nbt = symx._real(symx._t(nb))
        k = (nbt - symx._real(symx._t(b_change))) / symx._real(v.e)
        ctx.prove(z3.ToReal(z3.ToInt(k)) == k, 'next_bar() after a meter change is not a whole number of new bars '
                  'after the change', dt)
    # outside the clock's own thread the setter is refused
    main2, c2, th2, now2, phys2 = setup(ctx, on_clock=False)
    with Env(main2, th2, phys2):
        try:
            c2.beats_per_bar = 3
            raise Violation('beats_per_bar changed from a foreign thread', None, _data('meter-foreign', names))
        except Exception as e:
            if type(e).__name__ != 'ClockError':
                raise
            ctx.obligations += 1
            ctx.discharged += 1
    return {'law': 'meter', 'q': q}


LAWS = {'affine': law_affine, 'set-tempo': law_set_tempo, 'etempo': law_etempo, 'set-beats': law_set_beats,
        'grid-zero': law_grid_zero}


def job(j):
    name = j['law']
    if name == 'grid':
        h = lambda ctx: law_grid(ctx, j['qi'], j['neg'])   # noqa
    elif name == 'meter':
        h = lambda ctx: law_meter(ctx, j['qi'], j['bi'])   # noqa
    elif name == 'bars':
        h = lambda ctx: law_bars(ctx, j['bi'])             # noqa
    else:
        h = LAWS[name]
    st = explore(h, max_paths=5000, timeout_ms=60000, stop_on_violation=False)
    d = st.as_dict()
    seen, keep = set(), []
    for v in d['violations']:
        k = v['data']['key']
        if k in seen:
            continue
        seen.add(k)
        rec = v['data']['replay']
        rec['values'] = {n: v['model'].get(n) for n in rec['names'] if n in v['model']}
        rec['what'] = v['what']
        keep.append(v)
    d['violations'] = keep
    return d


# ------------------------------------------------------------------ replay: concrete floats on the real class

def job_pending(j):
    """the scheduler side of "changing tempo leaves the beat/second pair continuous": a routine that is PENDING on the
    clock while another routine changes the tempo still wakes at its beat (NRT scheduler; the scenario is C05's)"""
    from . import c05
    d = c05.job(j)
    for v in d['violations']:
        v['data']['replay']['delegate'] = 'c05'
        v['data']['key'] = 'c12:pending:' + v['data']['key']
    return d


def job_resched(j):
    """play() / sched on a clock whose task is already pending, then a tempo change: the task wakes exactly at the beat
    its LAST scheduling says, once (NRT scheduler; the scenario is C09's, on the TempoClock and SystemClock)"""
    from . import c09
    d = c09.job_resched(j)
    for v in d['violations']:
        v['data']['replay']['delegate'] = 'c09'
        v['data']['key'] = 'c12:resched:' + v['data']['key']
    return d


def replay(rec):
    if rec.get('delegate') == 'c05':
        from . import c05
        return c05.replay(rec)
    if rec.get('delegate') == 'c09':
        from . import c09
        return c09.replay(rec)
    import math
    from sc3.base import main as _m, clock as clk
    main = _m.main
    val = {k: (float(v) if v is not None else 0.0) for k, v in rec['values'].items()}
    g = lambda n, dflt=0.0: float(val.get(n, dflt))    # noqa
    c = clk.TempoClock(1)
    c._tempo = g('tempo', 1.0)
    c._beat_dur = 1.0 / c._tempo
    c._base_seconds = g('base_seconds')
    c._base_beats = g('base_beats')
    c._beats_per_bar = g('beats_per_bar', 4.0)
    c._bars_per_beat = 1.0 / c._beats_per_bar
    c._base_bar_beat = g('base_bar_beat')
    c._base_bar = float(g('base_bar'))
    th = FakeThread(g('now'), c)
    saved = (main.current_tt, main.elapsed_time)
    main.current_tt = th
    phys = g('phys')
    main.elapsed_time = lambda: phys
    tol = lambda a, b: abs(a - b) <= 1e-6 * (1 + abs(a) + abs(b))   # noqa
    law = rec['law']
    try:
        if law == 'roundtrip-beats':
            r = c.secs2beats(c.beats2secs(g('b')))
            return None if tol(r, g('b')) else f'secs2beats(beats2secs({g("b")})) = {r}'
        if law == 'roundtrip-secs':
            r = c.beats2secs(c.secs2beats(g('s')))
            return None if tol(r, g('s')) else f'beats2secs(secs2beats({g("s")})) = {r}'
        if law in ('rate', 'beats-now', 'seconds-now', 'elapsed-beats', 'beat-dur'):
            r = c.secs2beats(g('s') + g('d')) - c.secs2beats(g('s'))
            if not tol(r, g('d') * c.tempo):
                return f'rate: {r} beats in {g("d")} s at tempo {c.tempo}'
            if not tol(c.beats, c.secs2beats(g('now'))):
                return f'beats {c.beats} != secs2beats(now)'
            if not tol(c.seconds, g('now')):
                return 'seconds != now'
            if not tol(c.elapsed_beats(), c.secs2beats(phys)):
                return 'elapsed_beats != secs2beats(physical time)'
            if not tol(c.beat_dur * c.tempo, 1):
                return 'beat_dur * tempo != 1'
            return None
        if law in ('set-tempo', 'etempo', 'set-beats'):
            b0, e0, T0 = c.beats, c.elapsed_beats(), c.tempo
            if law == 'set-tempo':
                c.tempo = g('T2', 2.0)
                T = g('T2', 2.0)
                if not tol(c.beats, b0):
                    return f'tempo change at beat {b0}: beat jumps to {c.beats}'
                if not tol(c.beats2secs(b0), g('now')):
                    return 'tempo change moved the current beat in seconds'
            elif law == 'etempo':
                c.etempo(g('T2', 2.0))
                T = g('T2', 2.0)
                if not tol(c.elapsed_beats(), e0):
                    return f'etempo at elapsed beat {e0}: jumps to {c.elapsed_beats()}'
            else:
                c.beats = g('v')
                T = T0
                if not tol(c.beats, g('v')):
                    return f'beats set to {g("v")} reads back {c.beats}'
                if not tol(c.beats2secs(g('v')), g('now')):
                    return 'beats setter moved the logical second'
                if not tol(c.tempo, T0):
                    return 'beats setter changed tempo'
            if not tol(c._beat_dur * c._tempo, 1):
                return 'beat_dur * tempo != 1 after the change'
            r = c.secs2beats(g('s') + g('d')) - c.secs2beats(g('s'))
            return None if tol(r, g('d') * T) else f'rate after change: {r} beats in {g("d")} s at tempo {T}'
        if law in ('grid', 'play-quant', 'time-to-next-beat'):
            q, ph = rec['q'], g('phase')
            ref = g('ref') if rec.get('use_ref') else None
            r = c.next_time_on_grid(q, ph, ref)
            refv = ref if ref is not None else c.beats
            k = (r - c.base_bar_beat - ph) / q
            if r < refv - 1e-9:
                return f'next_time_on_grid({q},{ph},{refv}) = {r} is before the reference'
            if abs(k - round(k)) > 1e-6:
                return f'next_time_on_grid({q},{ph},{refv}) = {r} is not on the grid (origin {c.base_bar_beat})'
            if r - q >= refv + 1e-9:
                return f'next_time_on_grid({q},{ph},{refv}) = {r} is not the earliest'
            if law != 'grid':
                sched = main._clock_scheduler
                sched.reset()
                c.play(lambda: None, clk.Quant(q, ph))
                ents = list(sched.queue)
                sched.reset()
                if len(ents) != 1 or not tol(ents[0][0], c.beats2secs(c.next_time_on_grid(q, ph))):
                    return f'play(quant) queued {ents}'
                if not tol(c.time_to_next_beat(clk.Quant(q, ph)), c.next_time_on_grid(q, ph) - c.beats):
                    return 'time_to_next_beat disagrees'
                for sp, rr in (((q, ph), c.next_time_on_grid(q, ph)), ([q, ph], c.next_time_on_grid(q, ph)),
                               (q, c.next_time_on_grid(q, 0))):
                    sched.reset()
                    c.play(lambda: None, sp)
                    ents = list(sched.queue)
                    sched.reset()
                    if len(ents) != 1 or not tol(ents[0][0], c.beats2secs(rr)):
                        return f'play(task, {sp!r}) queued {ents}, next_time_on_grid is beat {rr}'
            return None
        if law == 'play-zero':
            sched = main._clock_scheduler
            for sp in (0, 0.0, (0, 0), [0, 0], clk.Quant(0), clk.Quant(0, 0)):
                sched.reset()
                c.play(lambda: None, sp)
                ents = list(sched.queue)
                sched.reset()
                if len(ents) != 1 or not tol(ents[0][0], c.beats2secs(c.beats)):
                    return f'play(task, {sp!r}) at beat {c.beats} queued the task for second ' \
                           f'{ents[0][0] if ents else None}; the current beat is second {c.beats2secs(c.beats)}'
                if not tol(c.time_to_next_beat(sp), 0):
                    return f'time_to_next_beat({sp!r}) = {c.time_to_next_beat(sp)} at beat {c.beats}'
            return None
        if law in ('grid-zero', 'grid-negative'):
            if not tol(c.next_time_on_grid(0, g('phase'), g('ref')), g('ref') + g('phase')):
                return 'quant 0 does not return ref + phase'
            try:
                c.next_time_on_grid(-1, 0, 0)
                return 'negative quant accepted'
            except ValueError:
                return None
        if law in ('bars', 'next-bar', 'beat-in-bar'):
            b = g('b')
            if not tol(c.bars2beats(c.beats2bars(b)), b):
                return 'bars2beats(beats2bars(b)) != b'
            if not tol(c.beats2bars(c.bars2beats(g('bar'))), g('bar')):
                return 'beats2bars(bars2beats(x)) != x'
            nb = c.next_bar(b)
            bars = c.beats2bars(nb)
            if nb < b - 1e-9 or abs(bars - round(bars)) > 1e-6 or nb - c.beats_per_bar >= b + 1e-9:
                return f'next_bar({b}) = {nb} (bars {bars})'
            if c.next_bar() < c.beats - 1e-9:
                return 'next_bar() before current beat'
            bib = c.beat_in_bar()
            if not (-1e-9 <= bib < c.beats_per_bar + 1e-9):
                return f'beat_in_bar = {bib}'
            return None
        if law in ('meter', 'meter-foreign', 'meter-notify'):
            q = rec.get('q', 1)
            bc = c.beats
            from sc3.base import model as mdl
            seen = []

            class Dep:
                pass
            dep = Dep()
            mdl.NotificationCenter.register(c, 'meter', dep,
                                            lambda *a: seen.append(tol(c._bars_per_beat * c._beats_per_bar, 1)))
            try:
                c.beats_per_bar = g('new_bpb', 3.0)
            finally:
                mdl.NotificationCenter.unregister(c, 'meter', dep)
            if seen != [True]:
                return f"inside the 'meter' notification bars_per_beat * beats_per_bar == 1 held: {seen} " \
                       '(expected exactly one notification with a consistent clock)'
            if not tol(c.base_bar_beat, bc):
                return f'meter changed at beat {bc} but grid origin (base_bar_beat) is {c.base_bar_beat}'
            if abs(c.base_bar - round(c.base_bar)) > 1e-6 or not tol(c.beats2bars(bc), c.base_bar):
                return 'bar numbering does not restart at the change'
            if not tol(c._bars_per_beat * c._beats_per_bar, 1):
                return 'bars_per_beat * beats_per_bar != 1'
            th._m_seconds = g('now') + g('later')
            r = c.next_time_on_grid(q, 0)
            k = (r - bc) / q
            if r < c.beats - 1e-9 or abs(k - round(k)) > 1e-6 or r - q >= c.beats + 1e-9:
                return f'after meter change at {bc}: next_time_on_grid({q}) at beat {c.beats} = {r}'
            nb = c.next_bar()
            k = (nb - bc) / g('new_bpb', 3.0)
            if abs(k - round(k)) > 1e-6:
                return f'after meter change at {bc}: next_bar() = {nb} is not a whole number of new bars later'
            th2 = FakeThread(0.0, clk.SystemClock)
            main.current_tt = th2
            try:
                c.beats_per_bar = 3
                return 'beats_per_bar changed from a foreign thread'
            except clk.ClockError:
                return None
        return None
    finally:
        main.current_tt, main.elapsed_time = saved


# ------------------------------------------------------------------ main

def main(tier, seed):
    from sc3.base import clock as clk, builtins as sbi
    chk = Check(PID, 'other', tier, seed)
    T = clk.TempoClock
    D = T.__dict__
    chk.functions = src_hash([T.beats2secs, T.secs2beats, D['tempo'].fset, T.etempo, D['beats'].fset, D['beats'].fget,
                              T.next_time_on_grid, T.play, T.time_to_next_beat, T.beats2bars, T.bars2beats, T.next_bar,
                              D['beats_per_bar'].fset, T.bar, T.beat_in_bar, T.elapsed_beats, sbi.mod, sbi.roundup,
                              sbi.round, clk.ClockTask])
    quants = list(range(len(QUANTS))) if tier == 'thorough' else [0, 1, 2, 3, 8, 9]
    bis = list(range(len(BPBS))) if tier == 'thorough' else [0, 1, 2, 6]
    chk.bounds = {'quant_grid': [QUANTS[i] for i in quants], 'beats_per_bar_grid_for_bar_laws': [BPBS[i] for i in bis], 'tempo': 'any real > 0', 'phase': '(-quant, quant)',
                  'state': 'arbitrary reals satisfying the representation invariant',
                  'histories': 'unbounded via the inductive invariant (each setter re-establishes it)',
                  'outside': 'symbolic quant (non-linear floor); IEEE rounding (exact reals); RT-thread interaction '
                             '(C08); beats/tempo setters called from a foreign thread while the clock computes'}
    chk.assumptions = ['floats are exact reals', 'main.elapsed_time is stubbed by an arbitrary real >= logical time',
                       'the current routine is a stub thread object with a symbolic logical time',
                       'representation invariant assumed for the pre-state: beat_dur*tempo == 1, '
                       'bars_per_beat*beats_per_bar == 1, tempo > 0, beats_per_bar > 0, base_bar integral']
    jobs = [dict(law=n) for n in LAWS]
    jobs += [dict(law='grid', qi=qi, neg=neg) for qi in quants for neg in (0, 1)]
    bis = list(range(len(BPBS))) if tier == 'thorough' else [0, 1, 2, 6]
    jobs += [dict(law='meter', qi=qi, bi=b) for qi in quants for b in bis]
    jobs += [dict(law='bars', bi=b) for b in bis]
    for r in run_jobs('vf.props.c12', 'job', jobs, 'nrt'):
        chk.add('laws', r)
    pend = [dict(mode='nrt', inner='tempo', tempo=2.0, offset=o, start='play', tempo_change=3) for o in (0, 1)]
    for r in run_jobs('vf.props.c12', 'job_pending', pend, 'nrt'):
        chk.add('pending_tasks', r)
    chk.require_notes('pending_tasks', ['nrt:tempo'])
    for r in run_jobs('vf.props.c12', 'job_resched', [dict()], 'nrt'):
        chk.add('rescheduled_tasks', r)
    chk.require_notes('rescheduled_tasks', ['resched'])
    return chk.finish(explanation='each law of the property is a z3 validity query (non-linear real arithmetic with '
                                  'ToInt witnesses for congruences) over the terms computed by the real TempoClock '
                                  'methods from an arbitrary invariant-satisfying state')
