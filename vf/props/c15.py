"""C15 -- operators lift uniformly; numeric kernels satisfy their range and inverse laws.

(ii) kernel laws: the real functions of sc3.base.builtins run on symbolic reals/ints (shims for type/int/float/math
     in that module); each law is a z3 validity query.  Transcendental kernels are uninterpreted functions with the
     exp2/log2, exp10/log10 inverse axioms instantiated at the occurring terms.  Floor-based kernels take their
     range/quantum from a stated grid (a symbolic divisor under floor is non-linear).
(i)  lifting: for every operator method of AbstractObject and every scbuiltin (enumerated by introspection), every
     operand kind on either side, with symbolic leaf values: value of the composed object == kernel applied to the
     evaluated operands (z3 equality of the two terms on every path).
"""
import inspect
import itertools
import z3
from fractions import Fraction
from .. import symx
from ..symx import explore, Violation, PathAbort, SymReal, SymInt, Inconclusive
from ..run import Check, run_jobs, src_hash

PID = 'C15'

RANGES = [1, 2, 3, 0.5, 1.5, 7, 0.25]      # hi - lo for wrap/fold (lo symbolic)
QUANTA = [1, 2, 3, 0.5, 0.25, 1.5, 10]     # quantum for round/roundup/trunc and modulus for mod (real instance)
IQUANTA = [1, 2, 3, 5, 10]                 # int instance


def _sbi():
    from sc3.base import builtins as sbi
    return sbi


class Exact:
    """module constants computed at import time stand for the rationals they denote"""

    def __enter__(self):
        sbi = _sbi()
        self.saved = (sbi._ONETWELFTH, sbi._ONE440TH)
        sbi._ONETWELFTH = SymReal(z3.RealVal(1) / 12)
        sbi._ONE440TH = SymReal(z3.RealVal(1) / 440)
        self.sh = symx.shims()
        self.sh.__enter__()
        return self

    def __exit__(self, *a):
        sbi = _sbi()
        self.sh.__exit__()
        sbi._ONETWELFTH, sbi._ONE440TH = self.saved
        return False


def R(x):
    return symx._real(symx._t(x))


def _d(law, names, **kw):
    r = {'mode': 'nrt', 'kind': 'kernel', 'law': law, 'names': names}
    r.update(kw)
    return {'key': f'kernel:{law}', 'replay': r}


def _num(ctx, kind, name):
    return ctx.real(name) if kind == 'real' else ctx.int(name)


# ---------------------------------------------------------------- kernel laws

def law_wrap(ctx, kind, ri):
    sbi = _sbi()
    rng = RANGES[ri]
    if kind == 'int' and rng != int(rng):
        raise PathAbort('n/a')
    x, lo = _num(ctx, kind, 'x'), _num(ctx, kind, 'lo')
    hi = lo + (rng if kind == 'real' else int(rng))
    with Exact():
        r = sbi.wrap(x, lo, hi)
    dt = _d(f'wrap-{kind}', ['x', 'lo'], rng=rng)
    if kind == 'real':
        ctx.prove(z3.And(R(r) >= R(lo), R(r) < R(hi)), 'wrap(x, lo, hi) outside [lo, hi)', dt)
    else:
        ctx.prove(z3.And(R(r) >= R(lo), R(r) <= R(hi)), 'wrap(x, lo, hi) outside [lo, hi] (int)', dt)
    return {'law': 'wrap', 'kind': kind, 'range': rng}


def law_wrap2(ctx, ri):
    sbi = _sbi()
    b = RANGES[ri] / 2
    x = ctx.real('x')
    with Exact():
        r = sbi.wrap2(x, b)
    ctx.prove(z3.And(R(r) >= R(-b), R(r) < R(b)), 'wrap2(x, b) outside [-b, b)', _d('wrap2', ['x'], b=b))
    return {'law': 'wrap2', 'b': b}


def law_fold(ctx, kind, ri):
    sbi = _sbi()
    rng = RANGES[ri]
    if kind == 'int' and rng != int(rng):
        raise PathAbort('n/a')
    x, lo = _num(ctx, kind, 'x'), _num(ctx, kind, 'lo')
    hi = lo + (rng if kind == 'real' else int(rng))
    with Exact():
        r = sbi.fold(x, lo, hi)
    ctx.prove(z3.And(R(r) >= R(lo), R(r) <= R(hi)), 'fold(x, lo, hi) outside [lo, hi]',
              _d(f'fold-{kind}', ['x', 'lo'], rng=rng))
    return {'law': 'fold', 'kind': kind, 'range': rng}


def law_fold2(ctx, ri):
    sbi = _sbi()
    b = RANGES[ri] / 2
    x = ctx.real('x')
    with Exact():
        r = sbi.fold2(x, b)
    ctx.prove(z3.And(R(r) >= R(-b), R(r) <= R(b)), 'fold2(x, b) outside [-b, b]', _d('fold2', ['x'], b=b))
    return {'law': 'fold2', 'b': b}


def law_clip(ctx, kind):
    sbi = _sbi()
    x, lo, hi = _num(ctx, kind, 'x'), _num(ctx, kind, 'lo'), _num(ctx, kind, 'hi')
    with Exact():
        r1 = sbi.clip(x, lo, hi)
        r2 = sbi.clip(r1, lo, hi)
    dt = _d(f'clip-{kind}', ['x', 'lo', 'hi'])
    ctx.prove(R(r1) == R(r2), 'clip is not idempotent', dt)
    ctx.prove(z3.Implies(R(lo) <= R(hi), z3.And(R(r1) >= R(lo), R(r1) <= R(hi))), 'clip outside [lo, hi]', dt)
    ctx.prove(z3.Implies(z3.And(R(lo) <= R(x), R(x) <= R(hi)), R(r1) == R(x)), 'clip changes a value in range', dt)
    with Exact():
        b = ctx.real('b') if kind == 'real' else ctx.int('b')
        r3 = sbi.clip2(x, b)
        r4 = sbi.clip2(r3, b)
    ctx.prove(R(r3) == R(r4), 'clip2 is not idempotent', _d(f'clip2-{kind}', ['x', 'b']))
    return {'law': 'clip', 'kind': kind}


def _multiple(ctx, r, q, what, dt):
    k = z3.ToInt(R(r) / R(q))
    ctx.prove(z3.ToReal(k) * R(q) == R(r), what, dt)


def law_round(ctx, fn, kind, qi):
    sbi = _sbi()
    q = (QUANTA if kind == 'real' else IQUANTA)[qi]
    x = _num(ctx, kind, 'x')
    with Exact():
        r = getattr(sbi, fn)(x, q)
    dt = _d(f'{fn}-{kind}', ['x'], q=q)
    _multiple(ctx, r, q, f'{fn}(x, q) is not a multiple of q', dt)
    if fn == 'round':
        ctx.prove(z3.And(R(r) - R(x) <= R(q) / 2, R(x) - R(r) <= R(q) / 2), 'round(x, q) is farther than q/2 from x', dt)
    elif fn == 'roundup':
        ctx.prove(z3.And(R(r) >= R(x), R(r) < R(x) + R(q)), 'roundup(x, q) is not the first multiple >= x', dt)
    else:
        ctx.prove(z3.And(R(r) <= R(x), R(r) > R(x) - R(q)), 'trunc(x, q) is not the last multiple <= x', dt)
    return {'law': fn, 'kind': kind, 'q': q}


def law_round0(ctx, fn, kind):
    sbi = _sbi()
    x = _num(ctx, kind, 'x')
    with Exact():
        r = getattr(sbi, fn)(x, 0)
    ctx.prove(R(r) == R(x), f'{fn}(x, 0) != x', _d(f'{fn}0-{kind}', ['x'], q=0))
    return {'law': fn + '0', 'kind': kind}


def law_mod(ctx, kind, qi):
    sbi = _sbi()
    b = (QUANTA if kind == 'real' else IQUANTA)[qi]
    a = _num(ctx, kind, 'a')
    with Exact():
        r = sbi.mod(a, b)
    dt = _d(f'mod-{kind}', ['a'], b=b)
    ctx.prove(z3.And(R(r) >= 0, R(r) < R(b)), 'mod(a, b) outside [0, b) for b > 0', dt)
    return {'law': 'mod', 'kind': kind, 'b': b}


def law_mod_sym(ctx):
    """int modulus symbolic: only the range law (mod >= 0), paths that avoid the divide"""
    sbi = _sbi()
    a = ctx.real('a')
    b = ctx.real('b', 0, None, lo_strict=True)
    ctx.assume(z3.And(a.e >= -b.e, a.e < 2 * b.e))       # the no-divide window of the kernel
    with Exact():
        r = sbi.mod(a, b)
    ctx.prove(z3.And(R(r) >= 0, R(r) < R(b)), 'mod(a, b) outside [0, b) (symbolic b, one period around)',
              _d('mod-window', ['a', 'b']))
    return {'law': 'mod-window'}


PAIRS = {
    'midicps-cpsmidi': ('midicps', 'cpsmidi', False, True),    # (f, g, f-domain positive?, g-domain positive?)
    'midiratio-ratiomidi': ('midiratio', 'ratiomidi', False, True),
    'octcps-cpsoct': ('octcps', 'cpsoct', False, True),
    'dbamp-ampdb': ('dbamp', 'ampdb', False, True),
}


def law_inverse(ctx, pair):
    sbi = _sbi()
    f, g, fpos, gpos = PAIRS[pair]
    x = ctx.real('x')
    y = ctx.real('y', 0, None, lo_strict=True)
    with Exact():
        gx = getattr(sbi, g)(getattr(sbi, f)(x))
        fy = getattr(sbi, f)(getattr(sbi, g)(y))
    ctx.prove(R(gx) == R(x), f'{g}({f}(x)) != x', _d(f'inverse-{g}-{f}', ['x', 'y'], f=f, g=g, side='gf'))
    ctx.prove(R(fy) == R(y), f'{f}({g}(y)) != y for y > 0', _d(f'inverse-{f}-{g}', ['x', 'y'], f=f, g=g, side='fg'))
    return {'law': 'inverse', 'pair': pair}


def job_kernel(j):
    law = j['law']
    if law == 'wrap':
        h = lambda c: law_wrap(c, j['kind'], j['ri'])       # noqa
    elif law == 'wrap2':
        h = lambda c: law_wrap2(c, j['ri'])                 # noqa
    elif law == 'fold':
        h = lambda c: law_fold(c, j['kind'], j['ri'])       # noqa
    elif law == 'fold2':
        h = lambda c: law_fold2(c, j['ri'])                 # noqa
    elif law == 'clip':
        h = lambda c: law_clip(c, j['kind'])                # noqa
    elif law in ('round', 'roundup', 'trunc'):
        h = lambda c: law_round(c, law, j['kind'], j['qi'])  # noqa
    elif law == 'round0':
        h = lambda c: law_round0(c, j['fn'], j['kind'])     # noqa
    elif law == 'mod':
        h = lambda c: law_mod(c, j['kind'], j['qi'])        # noqa
    elif law == 'mod-window':
        h = law_mod_sym
    elif law == 'inverse':
        h = lambda c: law_inverse(c, j['pair'])             # noqa
    st = explore(h, max_paths=20000, timeout_ms=30000, stop_on_violation=False)
    return _fin(st)


def _fin(st):
    d = st.as_dict()
    seen, keep = set(), []
    for v in d['violations']:
        k = v['data']['key']
        if k in seen:
            continue
        seen.add(k)
        rec = v['data']['replay']
        rec['values'] = {n: v['model'].get(n) for n in rec.get('names', []) if n in v['model']}
        rec['what'] = v['what']
        keep.append(v)
    d['violations'] = keep
    return d


# ---------------------------------------------------------------- replay (concrete)

def replay(rec):
    sbi = _sbi()
    if rec['kind'] == 'lift':
        from . import c15_lift
        return c15_lift.replay(rec)
    v = rec['values']
    law = rec['law']
    g = lambda n: v.get(n, 0)    # noqa
    eps = 1e-9

    def fl(n):
        return float(g(n))
    if law.startswith('wrap-') or law.startswith('fold-'):
        isint = law.endswith('int')
        x, lo = (int(g('x')), int(g('lo'))) if isint else (fl('x'), fl('lo'))
        hi = lo + (int(rec['rng']) if isint else rec['rng'])
        fn = sbi.wrap if law.startswith('wrap') else sbi.fold
        r = fn(x, lo, hi)
        ok = (lo <= r <= hi) if (isint or law.startswith('fold')) else (lo - eps <= r < hi + eps and r < hi)
        return None if ok else f'{fn.__name__}({x}, {lo}, {hi}) = {r}'
    if law in ('wrap2', 'fold2'):
        b, x = rec['b'], fl('x')
        r = getattr(sbi, law)(x, b)
        ok = -b - eps <= r <= b + eps and (law == 'fold2' or r < b)
        return None if ok else f'{law}({x}, {b}) = {r}'
    if law.startswith('clip'):
        isint = law.endswith('int')
        cv = (lambda n: int(g(n))) if isint else fl
        if law.startswith('clip2'):
            r = sbi.clip2(cv('x'), cv('b'))
            return None if sbi.clip2(r, cv('b')) == r else f'clip2 not idempotent at {cv("x")}, {cv("b")}'
        x, lo, hi = cv('x'), cv('lo'), cv('hi')
        r = sbi.clip(x, lo, hi)
        if sbi.clip(r, lo, hi) != r:
            return f'clip({x},{lo},{hi}) = {r} but clipping again gives {sbi.clip(r, lo, hi)}'
        if lo <= hi and not (lo <= r <= hi):
            return f'clip({x},{lo},{hi}) = {r}'
        if lo <= x <= hi and r != x:
            return f'clip({x},{lo},{hi}) = {r}'
        return None
    for fn in ('roundup', 'round', 'trunc'):
        if law.startswith(fn + '0'):
            x = int(g('x')) if law.endswith('int') else fl('x')
            r = getattr(sbi, fn)(x, 0)
            return None if abs(r - x) < eps else f'{fn}({x}, 0) = {r}'
        if law.startswith(fn + '-'):
            x = int(g('x')) if law.endswith('int') else fl('x')
            q = rec['q']
            r = getattr(sbi, fn)(x, q)
            k = r / q
            if abs(k - round(k)) > 1e-6:
                return f'{fn}({x}, {q}) = {r} is not a multiple of {q}'
            if fn == 'round' and abs(r - x) > q / 2 + eps:
                return f'round({x}, {q}) = {r}'
            if fn == 'roundup' and not (x - eps <= r < x + q):
                return f'roundup({x}, {q}) = {r}'
            if fn == 'trunc' and not (x - q < r <= x + eps):
                return f'trunc({x}, {q}) = {r}'
            return None
    if law.startswith('mod-'):
        if law == 'mod-window':
            a, b = fl('a'), fl('b')
        else:
            a = int(g('a')) if law.endswith('int') else fl('a')
            b = rec['b']
        r = sbi.mod(a, b)
        return None if 0 <= r < b else f'mod({a}, {b}) = {r}'
    if law.startswith('inverse-'):
        f, gname = rec['f'], rec['g']
        if rec['side'] == 'gf':
            x = fl('x')
            r = getattr(sbi, gname)(getattr(sbi, f)(x))
            return None if abs(r - x) <= 1e-6 * (1 + abs(x)) else f'{gname}({f}({x})) = {r}'
        y = fl('y')
        r = getattr(sbi, f)(getattr(sbi, gname)(y))
        return None if abs(r - y) <= 1e-6 * (1 + abs(y)) else f'{f}({gname}({y})) = {r}'
    return None


# ---------------------------------------------------------------- main

def main(tier, seed):
    sbi = _sbi()
    chk = Check(PID, 'other', tier, seed)
    fns = ['wrap', 'fold', 'wrap2', 'fold2', 'clip', 'clip2', 'round', 'roundup', 'trunc', 'mod', 'div', 'midicps',
           'cpsmidi', 'midiratio', 'ratiomidi', 'octcps', 'cpsoct', 'ampdb', 'dbamp', 'floor', 'ceil', 'pow', 'log2',
           'log10']
    chk.functions = src_hash([inspect.unwrap(getattr(sbi, f)) for f in fns] + [sbi.scbuiltin])
    nr = len(RANGES) if tier == 'thorough' else 4
    nq = len(QUANTA) if tier == 'thorough' else 4
    niq = len(IQUANTA) if tier == 'thorough' else 3
    jobs = []
    for ri in range(nr):
        jobs += [dict(law='wrap', kind=k, ri=ri) for k in ('real', 'int')]
        jobs += [dict(law='fold', kind=k, ri=ri) for k in ('real', 'int')]
        jobs += [dict(law='wrap2', ri=ri), dict(law='fold2', ri=ri)]
    jobs += [dict(law='clip', kind=k) for k in ('real', 'int')]
    for fn in ('round', 'roundup', 'trunc'):
        jobs += [dict(law=fn, kind='real', qi=i) for i in range(nq)]
        jobs += [dict(law=fn, kind='int', qi=i) for i in range(niq)]
        jobs += [dict(law='round0', fn=fn, kind=k) for k in ('real', 'int')]
    jobs += [dict(law='mod', kind='real', qi=i) for i in range(nq)]
    jobs += [dict(law='mod', kind='int', qi=i) for i in range(niq)]
    jobs += [dict(law='mod-window')]
    jobs += [dict(law='inverse', pair=p) for p in PAIRS]
    for r in run_jobs('vf.props.c15', 'job_kernel', jobs, 'nrt'):
        chk.add('kernel_laws', r)
    from . import c15_lift
    ljobs = c15_lift.jobs(tier)
    for r in run_jobs('vf.props.c15_lift', 'job', ljobs, 'nrt'):
        chk.add('lifting', r)
    chk.functions.update(c15_lift.functions())
    chk.bounds = {'wrap_fold_ranges(hi-lo, lo symbolic)': RANGES[:nr], 'quanta_real': QUANTA[:nq],
                  'quanta_int': IQUANTA[:niq], 'lifting': c15_lift.bounds(tier),
                  'outside': 'IEEE rounding (floats are exact reals, decimal literals denote their decimal value, 1/12 '
                             'and 1/440 their rationals); symbolic range/quantum under floor; random operators; '
                             'kernels not named in the property statement are covered by the lifting part only'}
    chk.assumptions = ['transcendental kernels are uninterpreted with axioms: exp2/log2 and exp10/log10 mutually '
                       'inverse (x>0), monotone sign facts', 'floats are exact reals']
    return chk.finish(explanation='kernel laws and lifting equalities as z3 validity queries over terms computed by '
                                  'the real builtins / composition objects')
