"""C10 -- real-time and non-real-time modes run the same program identically; seeded runs are deterministic.

One program text (routines on one clock, symbolic deltas / latencies / random-function arguments, tempo and beats
changes, condition wait / signal, pause / resume / stop, child routines, explicit seeds) is run

  * in an NRT process by the real ClockScheduler; every path yields a summary: path condition + the terms of every
    logged value and of every (time, bundle) entry of main.process().list, serialised as SMT-LIB;
  * in an RT process inside the clock co-simulation (vf/cosim.py: the real SystemClock / TempoClock run loops with
    ARBITRARY physical wake-up latency); outgoing datagrams are captured at OscInterface._send and decoded by the
    independent OSC reader.

For every RT path and every NRT summary whose path condition is compatible, z3 proves: same shape (which steps ran,
in which order), every logged value equal (logical times relative to the program's start), every bundle present
with |timetag - (start + NRT time) * 2^32| <= 1 unit; and that the NRT summaries cover the RT path condition.
Determinism: in NRT the program is run twice per path (fresh state): lists and raw scores must be identical; the
random stream of a seeded routine must equal the stream it produces when every other routine draws a different
number of values.
"""
import itertools
import json
import struct
import z3
from .. import symx, cosim, oscref
from ..symx import explore, Violation, PathAbort, SymReal, SymInt, Inconclusive
from ..run import Check, run_jobs, src_hash

PID = 'C10'
TWO32 = z3.RealVal(2 ** 32)


def R(x):
    if isinstance(x, bool):
        return z3.RealVal(int(x))
    return symx._real(symx._t(x))


def osc_shims():
    return symx.shims(extra={'sc3.base._osclib': {'struct': symx.OscStructShim}})


# ------------------------------------------------------------------ programs
# a routine = {'seed': int|None, 'steps': [op, ...]}; after every op the routine yields its next symbolic delta,
# except 'wait' (yield from cond.wait()).
PROGRAMS = {
    # cross-routine order and ties (every delta symbolic)
    'two-senders': dict(routines=[dict(seed=3, steps=['log', 'send']), dict(seed=4, steps=['send', 'log'])], sym=3),
    # time arithmetic of one routine (every delta symbolic)
    'solo': dict(routines=[dict(seed=1, steps=['log', 'send', 'log', 'send'])], sym=9),
    'tempo-change': dict(routines=[dict(seed=1, steps=['log', 'tempo', 'send', 'log', 'send'])], sym=9,
                         clocks=['tempo']),
    # a tempo / beats change while another routine is waiting on the same clock
    'tempo-other': dict(routines=[dict(seed=1, steps=['log', 'tempo', 'log']),
                                  dict(seed=2, steps=['log', 'send', 'log'])], clocks=['tempo']),
    'beats-other': dict(routines=[dict(seed=1, steps=['log', 'beats', 'log']),
                                  dict(seed=2, steps=['log', 'send', 'log'])], clocks=['tempo']),
    'beats-rebase': dict(routines=[dict(seed=1, steps=['log', 'beats', 'send', 'log', 'send'])], sym=9,
                         clocks=['tempo']),
    # discrete features (one symbolic delta per routine, the rest concrete)
    'random': dict(routines=[dict(seed=0, steps=['rand', 'rand', 'rand']), dict(seed=7, steps=['rand', 'rand'])]),
    'condition': dict(routines=[dict(seed=1, steps=['log', 'wait', 'send', 'log']),
                                dict(seed=2, steps=['log', 'signal', 'log'])]),
    'pause-resume': dict(routines=[dict(seed=1, steps=['log', 'pause', 'log', 'resume', 'log']),
                                   dict(seed=2, steps=['log', 'send', 'log', 'log'])]),
    'stop-other': dict(routines=[dict(seed=1, steps=['log', 'stop', 'log']),
                                 dict(seed=2, steps=['log', 'send', 'log'])]),
    'spawn': dict(routines=[dict(seed=5, steps=['rand', 'spawn', 'rand', 'log'])]),
    'sched-function': dict(routines=[dict(seed=1, steps=['log', 'schedfn', 'send', 'log'])], sym=9),
    'neg-latency': dict(routines=[dict(seed=1, steps=['log', 'sendneg', 'send', 'sendneg'])], sym=9),
    'bool-yield': dict(routines=[dict(seed=1, steps=['log', 'send', 'ybool', 'send']),
                                 dict(seed=2, steps=['log', 'send', 'log'])]),
    'restart': dict(routines=[dict(seed=5, steps=['rand', 'log', 'log', 'restart', 'rand', 'log']),
                              dict(seed=7, steps=['rand'])]),
    # logical beats are concrete and on / off a bar line; the physical wake-up times are symbolic (jitter)
    'next-bar': dict(routines=[dict(seed=1, steps=['meter', 'nextbar', 'send', 'nextbar', 'nextbar'])], sym=0, jitter=True,
                     deltas=[[0.0, 2.0, 1.0, 1.0, 0.5, 0.5]], clocks=['tempo']),
    'reseed': dict(routines=[dict(seed=9, steps=['rand', 'seed', 'rand']), dict(seed=9, steps=['rand', 'rand'])]),
}
THOROUGH_PROGRAMS = {
    'tempo-other-sym': dict(routines=[dict(seed=1, steps=['log', 'tempo', 'log']),
                                      dict(seed=2, steps=['log', 'send', 'log'])], sym=2, clocks=['tempo']),
    'beats-other-sym': dict(routines=[dict(seed=1, steps=['log', 'beats', 'log']),
                                      dict(seed=2, steps=['log', 'send', 'log'])], sym=2, clocks=['tempo']),
}
# programs whose RT exploration under arbitrary wake-up latency did not finish within 40 minutes on 16 cores: kept for
# reference, not part of any tier (VF_C10_HEAVY=1 adds them to the thorough tier)
HEAVY_PROGRAMS = {
    'three': dict(routines=[dict(seed=1, steps=['send', 'log']), dict(seed=2, steps=['log', 'log']),
                            dict(seed=3, steps=['rand', 'send'])]),
    'two-senders-3': dict(routines=[dict(seed=3, steps=['log', 'send', 'log']),
                                    dict(seed=4, steps=['log', 'send', 'log'])], sym=4),
    'mix-a': dict(routines=[dict(seed=0, steps=['log', 'tempo', 'rand', 'send', 'log']),
                            dict(seed=1, steps=['rand', 'wait', 'log']),
                            dict(seed=2, steps=['log', 'signal', 'log'])], clocks=['tempo']),
    'mix-b': dict(routines=[dict(seed=0, steps=['spawn', 'pause', 'rand', 'resume', 'log']),
                            dict(seed=1, steps=['rand', 'send', 'rand', 'log'])], sym=2),
    'mix-c': dict(routines=[dict(seed=3, steps=['beats', 'send', 'tempo', 'send', 'beats', 'send'])], sym=9,
                  clocks=['tempo']),
    'condition-sym': dict(routines=[dict(seed=1, steps=['log', 'wait', 'send', 'log']),
                                    dict(seed=2, steps=['log', 'signal', 'log'])], sym=3),
    'pause-resume-sym': dict(routines=[dict(seed=1, steps=['log', 'pause', 'log', 'resume', 'log']),
                                       dict(seed=2, steps=['log', 'send', 'log', 'log'])], sym=2),
}
# thorough tier: arbitrary wake-up latency also for these discrete-feature programs (all of them did not finish in 40 min)
JITTER_THOROUGH = ('stop-other', 'sched-function', 'bool-yield', 'restart')
T0, T2 = 2.0, 0.5
# deltas that are not symbolic in a program (spec['sym'] leading deltas per routine are symbolic)
CONCRETE_DELTAS = [[0.5, 0.25, 1.0, 0.5, 0.75, 0.25], [0.75, 0.5, 0.25, 1.0, 0.5, 0.5], [0.25, 1.0, 0.5, 0.25, 0.75, 1.0]]


class Prog:
    """The program text, written once against the public API; `env` supplies the clock, the address, symbolic
    parameters and the log."""

    def __init__(self, ctx, spec, clock_kind, draws_extra=None):
        self.ctx = ctx
        self.spec = spec
        self.kind = clock_kind
        self.n = len(spec['routines'])
        nsym = spec.get('sym', 1)
        fixed = spec.get('deltas') or CONCRETE_DELTAS
        self.d = [[ctx.real(f'd{i}_{k}', 0, 100) if k < nsym else fixed[i % len(fixed)][k % len(fixed[i % len(fixed)])]
                   for k in range(len(r['steps']) + 1)] for i, r in enumerate(spec['routines'])]
        self.L = ctx.real('L', 0, 100)
        self.ra = ctx.real('ra', -50, 50)
        self.rb = ctx.real('rb', -50, 50)
        self.cd = [ctx.real('cd0', 0, 100), ctx.real('cd1', 0, 100)]
        self.draws_extra = draws_extra or {}
        self.log = []          # (tag tuple, [values])

    def build(self, clock, addr, S, B0):
        """-> list of routines (not yet played).  S / B0: logical seconds / beats at program start."""
        from sc3.base import stream as stm, builtins as bi, main as _m
        main = _m.main
        ctx, spec, log = self.ctx, self.spec, self.log
        cond = stm.Condition()
        routines = []

        def draws(tag):
            vals = [bi.rrand(self.ra, self.rb), bi.rand(10), bi.rand(1.0), bi.rand2(self.rb), bi.coin(0.5),
                    bi.choice([1, 2, 3, 4, 5]), bi.linrand(1.0), bi.exprand(1.0, 2.0)]
            vals += list(bi.scramble([1, 2, 3, 4, 5]))
            lst5 = [1, 2, 3, 4, 5]
            bi.shuffle(lst5)
            vals += lst5
            log.append((tag, vals))

        def child_body():
            draws(('child', 0))
            log.append((('child-time', 0), [clock.seconds - S, clock.beats - B0]))
            yield self.cd[0]
            draws(('child', 1))
            log.append((('child-time', 1), [clock.seconds - S, clock.beats - B0]))
            yield self.cd[1]

        def mk(i, rspec):
            def body():
                me = routines[i]
                other = routines[(i + 1) % len(routines)]
                for k, op in enumerate(rspec['steps']):
                    log.append((('step', i, k, op), [clock.seconds - S, clock.beats - B0]))
                    if op == 'send':
                        addr.send_bundle(self.L, ['/x', i, k])
                    elif op == 'sendneg':
                        # negative latency = "as soon as possible": stamped immediately in RT, listed at the logical
                        # time of the send in NRT
                        addr.send_bundle(-1.0 - self.L, ['/x', i, k])
                    elif op == 'schedfn':
                        # a plain function scheduled on the clock: it logs its logical time and sends a bundle
                        def mkfn(i_, k_):
                            def fn_():
                                log.append((('fn', i_, k_), [clock.seconds - S, clock.beats - B0]))
                                addr.send_bundle(self.L, ['/x', i_, k_])
                            return fn_
                        clock.sched(self.cd[0], mkfn(i, k))
                    elif op == 'ybool':
                        yield True          # not a number: the routine is not rescheduled, in either mode
                        continue
                    elif op == 'rand':
                        draws(('rand', i, k))
                        for _ in range(self.draws_extra.get(i, 0)):
                            bi.rand(1.0)
                    elif op == 'tempo':
                        clock.tempo = T2
                    elif op == 'etempo':
                        clock.etempo(T2)
                    elif op == 'beats':
                        # first re-base towards the past (tasks are postponed), later ones towards the future
                        clock.beats = clock.beats - 1 if 'beats' not in rspec['steps'][:k] else clock.beats + 0.5
                    elif op == 'signal':
                        cond.test = True
                        cond.signal()
                    elif op == 'wait':
                        yield from cond.wait()
                        continue
                    elif op == 'pause':
                        other.pause()
                    elif op == 'resume':
                        other.resume(clock, 0)
                    elif op == 'stop':
                        other.stop()
                    elif op == 'spawn':
                        stm.Routine(child_body).play(clock, 0)
                    elif op == 'seed':
                        me.rand_seed = 1234
                    elif op == 'restart':
                        # the other routine has ended: reset it and play it again (it keeps its own random stream)
                        if other.state == stm.Routine.State.Done:
                            other.reset()
                            other.play(clock, 0)
                    elif op == 'meter':
                        clock.beats_per_bar = 2      # bars are counted from this beat on
                    elif op == 'nextbar':
                        log.append((('nextbar', i, k), [clock.next_bar() - B0]))
                    yield self.d[i][k]
                log.append((('end', i), [clock.seconds - S, clock.beats - B0]))
            r = stm.Routine(body)
            if rspec.get('seed') is not None:
                r.rand_seed = rspec['seed']
            return r
        for i, rspec in enumerate(spec['routines']):
            routines.append(mk(i, rspec))
        return routines


def flat_log(log):
    """-> (shape, [z3 real terms])"""
    shape, terms = [], []
    for tag, vals in log:
        shape.append([list(tag), len(vals)])
        for v in vals:
            terms.append(R(v))
    return shape, terms


def spec_of(j):
    return (PROGRAMS.get(j['prog']) or THOROUGH_PROGRAMS.get(j['prog']) or HEAVY_PROGRAMS[j['prog']])


# ------------------------------------------------------------------ NRT

def nrt_run(ctx, j, prog, check_root=True):
    from sc3.base import main as _m, clock as clk, netaddr as nad
    main = _m.main
    main.reset()
    try:
        clock = clk.TempoClock(T0) if j['clock'] == 'tempo' else clk.SystemClock
        addr = nad.NetAddr('127.0.0.1', 57110)
        S = clk.SystemClock.seconds
        B0 = clock.beats
        routines = prog.build(clock, addr, S, B0)
        for r in routines:
            r.play(clock, 0)
        score = main.process(0)
        lst = [list(e) for e in score.list]
        raw = bytes(score.raw)
    finally:
        main.reset()
    return lst, raw


def nrt_scenario(ctx, j, out):
    rec = {'mode': 'nrt', 'job': dict(j)}

    def data(sub):
        return {'key': f'c10:nrt:{j["prog"]}:{sub}', 'replay': dict(rec, sub=sub)}
    spec = spec_of(j)
    with osc_shims():
        prog = Prog(ctx, spec, j['clock'])
        lst, raw = nrt_run(ctx, j, prog)
        # --- determinism: a second fresh run of the same program
        prog2 = Prog.__new__(Prog)
        prog2.__dict__.update(prog.__dict__)
        prog2.log = []
        lst2, raw2 = nrt_run(ctx, j, prog2)
        # --- stream isolation: every other routine draws a different number of values
        iso = None
        if any('rand' in r['steps'] for r in spec['routines']) and len(spec['routines']) > 1:
            which = ctx.choose('iso_routine', len(spec['routines']))
            extra = {i: 1 + i for i in range(len(spec['routines'])) if i != which}
            prog3 = Prog.__new__(Prog)
            prog3.__dict__.update(prog.__dict__)
            prog3.log = []
            prog3.draws_extra = extra
            nrt_run(ctx, j, prog3)
            iso = (which, prog3.log)
    if not lst or lst[0][1][0] != '/g_new' or lst[-1][1][0] != '/c_set':
        raise Violation('score is not framed by the root group and the tail marker', None, data('frame'))
    # determinism obligations
    s1, t1 = flat_log(prog.log)
    s2, t2 = flat_log(prog2.log)
    if s1 != s2:
        raise Violation(f'two fresh runs executed different steps: {s1} vs {s2}', None, data('det-shape'))
    for k, (a, b) in enumerate(zip(t1, t2)):
        ctx.prove(a == b, f'two fresh runs of the same seeded program logged different values (slot {k} of {s1})',
                  data('det-value'))
    if [e[1:] for e in lst] != [e[1:] for e in lst2] or len(raw) != len(raw2):
        raise Violation('two fresh runs produced different score contents', None, data('det-score'))
    for a, b in zip(lst, lst2):
        ctx.prove(R(a[0]) == R(b[0]), 'two fresh runs list a bundle at different times', data('det-score'))
    e1, e2 = raw_entries(raw, data), raw_entries(raw2, data)
    # the raw score (what is rendered) is stamped with the listed times
    if len(e1) != len(lst):
        raise Violation(f'raw score has {len(e1)} entries, the list {len(lst)}', None, data('raw'))
    for k_, (a, e) in enumerate(zip(e1, lst)):
        ctx.prove(a[0] == symx.to_int_trunc(R(e[0]) * TWO32), f'raw score entry {k_} ({[m[0] for m in e[1:]]}) is not '
                  'stamped with its listed time', data('raw-time'))
    if [x[1] for x in e1] != [x[1] for x in e2]:
        raise Violation('two fresh runs produced different raw scores', None, data('det-raw'))
    for a, b in zip(e1, e2):
        ctx.prove(a[0] == b[0], 'two fresh runs stamp a raw score entry differently', data('det-raw'))
    if iso is not None:
        which, log3 = iso
        mine = lambda lg: [(t, v) for t, v in lg if t[0] == 'rand' and t[1] == which]      # noqa
        a, b = mine(prog.log), mine(log3)
        if [t for t, _ in a] != [t for t, _ in b]:
            raise Violation('isolation run executed different steps', None, data('iso-shape'))
        for (t, va), (_, vb) in zip(a, b):
            for x, y in zip(va, vb):
                ctx.prove(R(x) == R(y), f'the random stream of seeded routine {which} changed when other routines drew '
                          f'a different number of values (step {t})', data('iso'))
        ctx.note('iso')
    # summary for the RT side
    shape, terms = s1, t1
    bund = []
    for e in lst[1:-1]:
        bund.append([e[1:], len(terms)])
        terms.append(R(e[0]))
    s = z3.Solver()
    for a in ctx.solver.assertions():
        s.add(a)
    pc_text = s.to_smt2()
    for k, t in enumerate(terms):
        s.add(z3.Real(f'nrt_o{k}') == t)
    out.append({'pc': pc_text, 'defs': s.to_smt2(), 'shape': shape, 'bundles': bund, 'nterms': len(terms)})
    ctx.note('nrt:' + j['prog'])
    for r in spec['routines']:
        for op in r['steps']:
            ctx.note('op:' + op)
    return {'job': j, 'entries': len(lst)}


def raw_entries(raw, data):
    out = []
    i = 0
    while i < len(raw):
        ln = struct.unpack('>i', raw[i:i + 4])[0]
        i += 4
        try:
            tree = oscref.decode(raw[i:i + ln])
        except oscref.OscError as e:
            raise Violation(f'raw score entry is not OSC 1.0: {e}', None, data('raw'))
        i += ln
        out.append((symx.placeholder_term(tree[1]), [m[1:] for m in oscref.messages(tree)]))
    return out


# ------------------------------------------------------------------ RT

def rt_scenario(ctx, j, summaries):
    sim = cosim.Sim(ctx, jitter=j.get('jitter', True), max_events=j.get('max_events', 40))
    rec = {'mode': 'rt', 'job': dict(j)}

    def data(sub):
        return {'key': f'c10:rt:{j["prog"]}:{sub}', 'replay': dict(rec, sub=sub)}
    spec = spec_of(j)
    with sim as s, osc_shims():
        from sc3.base import netaddr as nad
        w, clk, main = s.world, s.clk, s.m
        rec['trace'] = w.trace
        captured = []
        osci = main._osc_interface
        saved_send = osci._send
        osci._send = lambda msg, target: captured.append(bytes(msg.dgram))
        offset = clk.SystemClock._elapsed_osc_offset
        tclock = None
        try:
            prog = Prog(ctx, spec, j['clock'])
            main.main_tt._m_seconds = w.now
            tclock = clk.TempoClock(T0) if j['clock'] == 'tempo' else None
            clock = tclock or clk.SystemClock
            addr = nad.NetAddr('127.0.0.1', 57110)
            start = {}

            def play(world):
                S = clk.SystemClock.seconds
                start['S'] = S
                routines = prog.build(clock, addr, S, clock.beats)
                for r in routines:
                    r.play(clock, 0)
            s.foreign('run the program', play)
            s.run(clock)
            if w.truncated:
                raise PathAbort('event budget')
            if 'S' not in start:
                raise PathAbort('program never started on this path')
            if not w.blocked:
                raise PathAbort('clock thread did not run to quiescence')
        finally:
            osci._send = saved_send
            if tclock is not None:
                try:
                    main._atexitq.remove(tclock._stop)
                except Exception:
                    pass
        S = R(start['S'])
        shape, terms = flat_log(prog.log)
        sent = {}
        for dg in captured:
            try:
                tree = oscref.decode(dg)
            except oscref.OscError as e:
                raise Violation(f'datagram is not OSC 1.0: {e}', None, data('format'))
            if tree[0] != 'bundle':
                raise Violation('send_bundle produced a message', None, data('format'))
            key = json.dumps([[m[1]] + [a[1] for a in m[2]] for m in oscref.messages(tree)])
            if key in sent:
                raise Violation(f'bundle {key} sent twice', None, data('dup'))
            sent[key] = symx.placeholder_term(tree[1])
    # ---- compare with the NRT summaries.  The NRT path conditions partition the parameter space; the summaries that
    # overlap this RT path are found by model-guided search: take a model of (RT path condition and not yet covered),
    # pick the NRT path whose condition it satisfies, compare, exclude it, repeat until nothing is left (= covered).
    parsed = _parsed(summaries)
    matched = 0
    excluded = []
    while True:
        ctx.solver.push()
        try:
            for e in excluded:
                ctx.solver.add(z3.Not(e))
            ctx._model = None
            r = ctx._check()
            if r == z3.unknown:
                raise Inconclusive('unknown on RT/NRT coverage')
            if r == z3.unsat:
                break
            m = ctx.solver.model()
            hit = None
            for k, (pc, defs) in enumerate(parsed):
                if z3.is_true(m.eval(pc, model_completion=True)):
                    hit = k
                    break
            if hit is None:
                raise Violation('an RT path is covered by no NRT path (NRT exploration incomplete?)', m, data('cover'))
        finally:
            ctx.solver.pop()
            ctx._model = None
        pc, defs = parsed[hit]
        p = summaries[hit]
        excluded.append(pc)
        matched += 1
        ctx.solver.push()
        try:
            for a in defs:
                ctx.solver.add(a)
            ctx._model = None
            if shape != p['shape']:
                ctx._check()
                raise Violation(f'the same program ran different steps: NRT {fmt_shape(p["shape"])} / RT '
                                f'{fmt_shape(shape)}', ctx.solver.model(), data('shape'))
            if sorted(sent) != sorted(json.dumps(b[0]) for b in p['bundles']):
                ctx._check()
                raise Violation(f'bundles differ: NRT {[b[0] for b in p["bundles"]]} / RT {sorted(sent)}',
                                ctx.solver.model(), data('bundles'))
            obligations = []
            k = 0
            for tag, n in shape:
                for q in range(n):
                    df = terms[k] - z3.Real(f'nrt_o{k}')
                    obligations.append((terms[k] == z3.Real(f'nrt_o{k}'),
                                        f'{tag}: value {q} differs between NRT and RT (logical time / beats relative '
                                        f'to the program start, or a drawn value)', 'value',
                                        z3.Or(df >= 0.01, df <= -0.01)))
                    k += 1
            step_time = {}
            k = 0
            for tag, n in shape:
                if tag[0] == 'step':
                    step_time[(tag[1], tag[2])] = k          # index of the step's logical seconds (relative)
                k += n
            for b, idx in p['bundles']:
                tt = sent[json.dumps(b)]
                if z3.is_int_value(tt) and tt.as_long() == 1:
                    # stamped "immediately" in RT (negative latency): NRT lists it at the logical time of the send
                    key = (b[0][1], b[0][2])
                    df = z3.Real(f'nrt_o{idx}') - terms[step_time[key]]
                    obligations.append((z3.Real(f'nrt_o{idx}') == terms[step_time[key]],
                                        f'bundle {b}: sent "immediately" in RT but not listed at the logical time of '
                                        f'the send in NRT', 'bundle-time', z3.Or(df >= 0.01, df <= -0.01)))
                    continue
                want = (S + z3.Real(f'nrt_o{idx}')) * TWO32 + offset
                big = z3.RealVal(2 ** 32 // 100)
                obligations.append((z3.And(z3.ToReal(tt) - want <= 1, want - z3.ToReal(tt) <= 1),
                                    f'bundle {b}: RT timetag is not program start + NRT time (+/- one timetag unit)',
                                    'bundle-time', z3.Or(z3.ToReal(tt) - want >= big, want - z3.ToReal(tt) >= big)))
            allc = z3.And(*[o[0] for o in obligations]) if obligations else z3.BoolVal(True)
            if ctx.valid(allc):
                ctx.obligations += len(obligations)
                ctx.discharged += len(obligations)
            else:
                for c, what, sub, visible in obligations:
                    if ctx.valid(c):
                        continue
                    # prefer a counterexample whose discrepancy is visible to a concrete replay (>= 10 ms)
                    ctx.solver.push()
                    ctx.solver.add(z3.Not(c), visible)
                    r = ctx._check()
                    m = ctx.solver.model() if r == z3.sat else None
                    ctx.solver.pop()
                    ctx._model = None
                    if m is not None:
                        raise Violation(what, m, data(sub))
                    ctx.prove(c, what, data(sub))
        finally:
            ctx.solver.pop()
            ctx._model = None
    ctx.obligations += 1
    ctx.discharged += 1          # coverage: RT path condition and no NRT path condition is unsat
    if not matched:
        raise Inconclusive('no NRT summary compatible with this RT path')
    ctx.note('rt:' + j['prog'])
    return {'job': {k: v for k, v in j.items() if k != 'summaries'}, 'matched': matched, 'bundles': len(sent)}


_PARSE_CACHE = {}


def _parsed(summaries):
    key = id(summaries)
    if key not in _PARSE_CACHE:
        _PARSE_CACHE.clear()
        out = []
        for p in summaries:
            pc = z3.parse_smt2_string(p['pc'])
            out.append((z3.And(*pc) if len(pc) else z3.BoolVal(True), list(z3.parse_smt2_string(p['defs']))))
        _PARSE_CACHE[key] = out
    return _PARSE_CACHE[key]


def fmt_shape(sh):
    return [tuple(t) for t, _ in sh]


# ------------------------------------------------------------------ jobs

def job_nrt(j):
    out = []
    st = explore(lambda c: nrt_scenario(c, j, out), max_paths=20000, timeout_ms=20000, stop_on_violation=True)
    d = st.as_dict()
    for v in d['violations']:
        rec = v['data']['replay']
        rec['values'] = dict(v['model'])
        rec['what'] = v['what']
    d['summaries'] = out
    return d


def job_rt(j):
    summaries = j['summaries']
    jj = {k: v for k, v in j.items() if k != 'summaries'}
    st = explore(lambda c: rt_scenario(c, jj, summaries), max_paths=60000, timeout_ms=20000, stop_on_violation=True)
    d = st.as_dict()
    d['job'] = jj
    for v in d['violations']:
        rec = v['data']['replay']
        rec['values'] = dict(v['model'])
        rec['what'] = v['what']
    return d


# ------------------------------------------------------------------ replay
# A counterexample is re-run concretely: the NRT side by the real scheduler in a child NRT process, the RT side by
# the real clock code in the co-simulation with the model's concrete instants.

def _concrete_trace(j, vals):
    """runs in a process of mode j['mode']; returns {'log': [[tag, [floats]]], 'bundles': {key: time}}"""
    ctx = symx.Ctx([], concrete=dict(vals))
    symx.Ctx.cur = ctx
    spec = spec_of(j)
    if j['mode'] == 'nrt':
        with symx.shims():
            prog = Prog(ctx, spec, j['clock'])
            lst, raw = nrt_run(ctx, j, prog)
        return {'log': [[list(t), [float(x) for x in v]] for t, v in prog.log],
                'bundles': {json.dumps(e[1:]): float(e[0]) for e in lst[1:-1]}}
    raise NotImplementedError


def replay(rec):
    """NRT-side records (determinism / isolation) are re-run concretely here; cross-mode records re-run both sides:
    NRT in this process is impossible for an RT record (one mode per process), so the RT process spawns an NRT
    child."""
    import subprocess
    import sys
    import os
    j = rec['job']
    vals = {k: v for k, v in rec.get('values', {}).items()}
    if rec['mode'] == 'nrt':
        ctx = symx.Ctx([], concrete=dict(vals))
        symx.Ctx.cur = ctx
        try:
            nrt_scenario(ctx, j, [])
        except Violation as v:
            return v.what
        except PathAbort:
            return None
        return None
    # RT record: concrete NRT trace from a child process
    code = ('import sys, json; sys.setrecursionlimit(10000)\n'
            'from vf.run import init_sc3; init_sc3("nrt")\n'
            'from vf.props import c10\n'
            'a = json.loads(sys.stdin.read())\n'
            'print("TRACE " + json.dumps(c10._concrete_trace(dict(a["job"], mode="nrt"), a["values"])))\n')
    p = subprocess.run([sys.executable, '-c', code], input=json.dumps({'job': j, 'values': vals}), text=True,
                       capture_output=True, env=dict(os.environ))
    line = [ln for ln in p.stdout.splitlines() if ln.startswith('TRACE ')]
    if not line:
        return None
    nrt = json.loads(line[0][6:])
    # concrete RT run in the co-simulation
    ctx = symx.Ctx([], concrete=dict(vals))
    symx.Ctx.cur = ctx
    summaries = []
    try:
        rt = _concrete_rt(ctx, j)
    except (PathAbort, cosim.EndPath):
        return None
    if rt is None:
        return None
    S = rt['S']
    if [t for t, _ in rt['log']] != [t for t, _ in nrt['log']]:
        return f'the same program ran different steps: NRT {[tuple(t) for t, _ in nrt["log"]]} / RT ' \
               f'{[tuple(t) for t, _ in rt["log"]]}'
    for (t, a), (_, b) in zip(rt['log'], nrt['log']):
        for x, y in zip(a, b):
            if abs(x - y) > 1e-6 * max(1.0, abs(x), abs(y)):
                return f'{t}: RT value {x} differs from NRT value {y}'
    if sorted(rt['bundles']) != sorted(nrt['bundles']):
        return f'bundles differ: NRT {sorted(nrt["bundles"])} / RT {sorted(rt["bundles"])}'
    for k, tt in rt['bundles'].items():
        if tt == 1:
            b = json.loads(k)
            st = [v[0] for t, v in rt['log'] if t[0] == 'step' and t[1] == b[0][1] and t[2] == b[0][2]]
            if st and abs(nrt['bundles'][k] - st[0]) > 1e-6 * max(1.0, abs(st[0])):
                return f'bundle {k}: sent "immediately" in RT at logical time {st[0]}, listed at {nrt["bundles"][k]} in NRT'
            continue
        want = (S + nrt['bundles'][k]) * 2 ** 32 + rt['offset']
        if abs(tt - want) > 2 ** 32 * 1e-6 * max(1.0, S):
            return f'bundle {k}: RT timetag differs from program start + NRT time by {(tt - want) / 2 ** 32} s'
    return None


def _concrete_rt(ctx, j):
    spec = spec_of(j)
    sim = cosim.Sim(ctx, jitter=j.get('jitter', True), max_events=j.get('max_events', 40))
    with sim as s:
        from sc3.base import netaddr as nad
        w, clk, main = s.world, s.clk, s.m
        captured = []
        osci = main._osc_interface
        saved_send = osci._send
        osci._send = lambda msg, target: captured.append(bytes(msg.dgram))
        offset = clk.SystemClock._elapsed_osc_offset
        tclock = None
        try:
            prog = Prog(ctx, spec, j['clock'])
            main.main_tt._m_seconds = w.now
            tclock = clk.TempoClock(T0) if j['clock'] == 'tempo' else None
            clock = tclock or clk.SystemClock
            addr = nad.NetAddr('127.0.0.1', 57110)
            start = {}

            def play(world):
                S = clk.SystemClock.seconds
                start['S'] = S
                for r in prog.build(clock, addr, S, clock.beats):
                    r.play(clock, 0)
            s.foreign('run the program', play)
            s.run(clock)
            if 'S' not in start:
                return None
        finally:
            osci._send = saved_send
            if tclock is not None:
                try:
                    main._atexitq.remove(tclock._stop)
                except Exception:
                    pass
    bundles = {}
    for dg in captured:
        tree = oscref.decode(dg)
        key = json.dumps([[m[1]] + [a[1] for a in m[2]] for m in oscref.messages(tree)])
        bundles[key] = tree[1]
    return {'S': float(start['S']), 'offset': offset, 'bundles': bundles,
            'log': [[list(t), [float(x) for x in v]] for t, v in prog.log]}


def main(tier, seed):
    from sc3.base import clock as clk, stream as stm, main as _m, builtins as bi, _oscinterface as osci
    chk = Check(PID, 'model_checking', tier, seed)
    chk.functions = src_hash([clk.ClockTask, clk.ClockScheduler, clk.SystemClock, clk.TempoClock, stm.Routine,
                              stm.TimeThread, stm.Condition, bi.rrand, bi.rand, bi.rand2, bi.coin, bi.choice,
                              bi.linrand, bi.exprand, osci.OscNrtInterface, osci.OscScore, _m.NrtMain.process])
    progs = dict(PROGRAMS)
    if tier != 'quick':
        progs.update(THOROUGH_PROGRAMS)
        import os
        if os.environ.get('VF_C10_HEAVY'):
            sel = os.environ['VF_C10_HEAVY'].split(',')
            progs.update({k: v for k, v in HEAVY_PROGRAMS.items() if sel == ['1'] or k in sel})
    jobs = []
    for name, spec in progs.items():
        for ck in spec.get('clocks', ['sys', 'tempo']):
            jobs.append(dict(prog=name, clock=ck, mode='nrt'))
    rt_jobs = []
    for r in run_jobs('vf.props.c10', 'job_nrt', jobs, 'nrt'):
        sm = r.pop('summaries', [])
        chk.add('nrt', r)
        j = dict(r['job'], mode='rt', summaries=sm,
                 jitter=progs[r['job']['prog']].get('sym', 1) > 1 or bool(progs[r['job']['prog']].get('jitter'))
                 or (tier != 'quick' and r['job']['prog'] in JITTER_THOROUGH))
        if sm and not r.get('violations') and not r.get('truncated'):
            rt_jobs.append(j)
    for r in run_jobs('vf.props.c10', 'job_rt', rt_jobs, 'rt'):
        chk.add('rt-vs-nrt', r)
    ops = sorted({op for s in progs.values() for r in s['routines'] for op in r['steps']})
    chk.require_notes('nrt', ['nrt:' + n for n in progs] + ['op:' + o for o in ops] + ['iso'])
    chk.require_notes('rt-vs-nrt', ['rt:' + n for n in progs])
    chk.bounds = {'programs': {n: s['routines'] for n, s in progs.items()}, 'clocks': 'SystemClock, TempoClock(2.0); '
                  'tempo change to 0.5', 'deltas_latency_s': '[0, 100] symbolic reals',
                  'random_arguments': 'rrand / rand2 bounds symbolic in [-50, 50]', 'seeds': '0..9, 1234',
                  'rt_jitter': 'arbitrary wake-up latency (horizon 1e6 s, <= 40 clock-loop events) for ' + ('every program' if tier != 'quick' else 'the all-symbolic programs; zero latency for the discrete-feature programs'),
                  'outside': 'TempoClock.etempo (defined on physical time, hence jitter dependent in RT by definition), several clocks in one program (cross-clock order is timing dependent in RT), AppClock, '
                             'latency None (stamped "immediately" in RT by design), float rounding of time '
                             'arithmetic (times are exact reals; bundle times compared up to one timetag unit), '
                             'programs not in the list'}
    chk.assumptions = ['clock threads and Condition/Lock are the co-simulation fakes of vf/cosim.py in RT',
                       'outgoing datagrams captured at OscInterface._send (RT) / main.process().list (NRT)',
                       'random.Random is executed concretely (C level); its outputs enter the terms as constants']
    return chk.finish(explanation='product of symbolic executions: NRT path summaries (SMT-LIB) are compared by z3 '
                                  'with every compatible RT co-simulation path; determinism and stream isolation '
                                  'proved per NRT path')
