"""C04 -- function parameters become correctly laid-out, correctly wired controls.

Signatures are generated from a table of parameter kinds (annotation x rates entry x default shape); default values,
lag times and variant values are symbolic reals.  The real SynthDef builds the definition; the bytes are decoded by
the independent reader and compared with a reference layout written from the property statement: slots grouped
initial, trigger, audio, control in declaration order inside a group; name table -> first slot of each parameter;
Control / TrigControl / AudioControl / LagControl units with the right rate, first slot and lag inputs; the object
the body receives for a parameter is exactly the control output(s) at its slots; prepend, wrap, metadata spec
defaults, variants and the callable interface obey the same layout.
"""
import itertools
import z3
from .. import symx, scgf, sdsym
from ..symx import explore, Violation, PathAbort, SymReal, Inconclusive
from ..run import Check, run_jobs, src_hash

PID = 'C04'

# kind: (annotation, rates entry, default shape).  rates entry: '-' absent (shorter list), None, name, 'lag', 'lags'
KINDS = [
    (None, '-', 1), (None, '-', 3), ('ir', '-', 1), ('tr', '-', 2), ('ar', '-', 1), ('ar', 'ir', 2),
    (None, 'lag', 1), (None, 'lags', 3), (None, '-', 0), ('kr', None, 1), (None, 'tr', 1), ('kr', 'lag', 2),
    (None, 'ar', 2), ('ir', 'kr', 1),
]
GROUP = {'ir': 0, 'tr': 1, 'ar': 2, 'kr': 3}
UNIT = {0: ('Control', 0), 1: ('TrigControl', 1), 2: ('AudioControl', 2), 3: ('Control', 1)}


def M():
    from sc3.synth import synthdef as sdf, ugen as ugn
    from sc3.synth.ugens import inout as iou, noise as nse
    return sdf, ugn, iou, nse


def make_func(names, defaults, annots, body):
    """function with the given parameter names / defaults (None = no default) / annotations"""
    src = 'def graph(' + ', '.join(names) + '):\n    return __body__(' + ', '.join(names) + ')\n'
    env = {'__body__': body}
    exec(src, env)
    f = env['graph']
    k = 0
    while k < len(defaults) and defaults[k] is None:
        k += 1
    f.__defaults__ = tuple(defaults[k:]) if k < len(defaults) else None
    f.__annotations__ = {n: a for n, a in zip(names, annots) if a is not None}
    return f


def effective_rate(annot, rentry):
    if rentry in ('ir', 'tr', 'ar', 'kr'):
        return rentry
    return annot or 'kr'


class Param:
    def __init__(self, ctx, name, kind, pos):
        annot, rentry, shape = kind
        self.name, self.annot, self.rentry, self.shape = name, annot, rentry, shape
        self.rate = effective_rate(annot, rentry)
        if shape == 0:
            self.default = None
            self.values = [0.0]
        elif shape == 1:
            v = ctx.real(f'{name}_d')
            self.default = v
            self.values = [v]
        else:
            vs = [ctx.real(f'{name}_d{i}') for i in range(shape)]
            self.default = tuple(vs)
            self.values = vs
        self.size = len(self.values)
        self.lag_entry = None
        self.lags = [0.0] * self.size
        if rentry == 'lag':
            l = ctx.real(f'{name}_lag')
            self.lag_entry = l
            if self.rate == 'kr':
                self.lags = [l] * self.size
        elif rentry == 'lags':
            ls = [0.25, 0.5]      # concrete lag list (two symbolic lag lists multiply the equality classes)
            self.lag_entry = ls
            if self.rate == 'kr':
                self.lags = [ls[i % 2] for i in range(self.size)]
        elif rentry in ('ir', 'tr', 'ar', 'kr'):
            self.lag_entry = rentry
        elif rentry is None:
            self.lag_entry = None


def rates_arg(params):
    out = []
    for p in params:
        if p.rentry == '-':
            out.append('-')
        else:
            out.append(p.lag_entry)
    while out and out[-1] == '-':
        out.pop()
    return [None if x == '-' else x for x in out] or None


def reference(groups_of_params, start=0):
    """one _build_ugen_graph call: slots by rate group then declaration order.  Returns (slots terms, index per
    param, expected control units [(cls, rate, first slot, nouts, lags)], next free slot)"""
    slots = []
    index = {}
    units = []
    cur = start
    for g in range(4):
        ps = [p for p in groups_of_params if GROUP[p.rate] == g]
        if not ps:
            continue
        first = cur
        lags = []
        for p in ps:
            index[p.name] = cur
            slots.extend(p.values)
            lags.extend(p.lags)
            cur += p.size
        units.append((g, first, cur - first, lags))
    return slots, index, units, cur


def check_layout(ctx, d, calls, data, variants=None, defname=None):
    """calls: list of param lists, one per _build_ugen_graph call (outer first, then wraps in call order)"""
    slots, index, units = [], {}, []
    cur = 0
    for ps in calls:
        s, ix, us, cur = reference(ps, cur)
        slots += s
        index.update(ix)
        units += us
    if len(d['params']) != len(slots):
        raise Violation(f'{len(d["params"])} parameter slots in the definition, {len(slots)} expected', None,
                        data('slot-count'))
    for i, (got, want) in enumerate(zip(d['params'], slots)):
        ctx.prove(sdsym.cterm(got) == symx._real(symx._t(want)), f'default value in slot {i}', data('slot-default'))
    want_names = [(p.name, index[p.name]) for ps in calls for p in ps]
    if [n for n, _ in d['pnames']] != [n for n, _ in want_names]:
        raise Violation(f'name table {d["pnames"]} != parameters in declaration order {want_names}', None,
                        data('name-table'))
    for (n, gi), (_, wi) in zip(d['pnames'], want_names):
        if gi != wi:
            raise Violation(f'name table entry {n!r} points at slot {gi}, its default value(s) start at slot {wi}',
                            None, data('name-index'))
    # control units
    cu = [(i, u) for i, u in enumerate(d['ugens']) if u['cls'] in ('Control', 'TrigControl', 'AudioControl',
                                                                    'LagControl')]
    covered = {}
    for i, u in cu:
        for k in range(len(u['outs'])):
            covered[u['spec'] + k] = (i, u, k)
    for (g, first, n, lags) in units:
        lagged = any(not ctx.valid(symx._real(symx._t(l)) == 0) for l in lags) if g == 3 else False
        for k in range(n):
            s = first + k
            if s not in covered:
                raise Violation(f'slot {s} is not produced by any control unit', None, data('unit-missing'))
            i, u, ko = covered[s]
            wcls, wrate = UNIT[g]
            if g == 3 and lagged:
                wcls = 'LagControl'
            if u['cls'] != wcls or u['rate'] != wrate or u['outs'][ko] != wrate:
                raise Violation(f'slot {s}: produced by {u["cls"]} at rate {u["rate"]}, expected {wcls} at rate '
                                f'{wrate}', None, data('unit-kind'))
            if wcls == 'LagControl':
                nin = len(u['ins'])
                if nin != len(u['outs']):
                    raise Violation(f'LagControl with {len(u["outs"])} outputs has {nin} lag inputs', None,
                                    data('lag-count'))
                ui, oi = u['ins'][ko]
                if ui != -1:
                    raise Violation('lag input is not a constant', None, data('lag-input'))
                ctx.prove(sdsym.cterm(d['consts'][oi]) == symx._real(symx._t(lags[k])),
                          f'lag time of slot {s}', data('lag-value'))
            elif u['ins']:
                raise Violation(f'{u["cls"]} has inputs', None, data('unit-kind'))
    if variants is not None:
        if [vn for vn, _ in d['variants']] != [f'{defname}.{k}' for k in variants]:
            raise Violation(f'variant names {[vn for vn, _ in d["variants"]]}', None, data('variant-names'))
        for (vn, vals), (k, pairs) in zip(d['variants'], variants.items()):
            want = list(slots)
            for pname, pv in pairs.items():
                pv = pv if isinstance(pv, (list, tuple)) else [pv]
                for j, x in enumerate(pv):
                    want[index[pname] + j] = x
            for i, (g_, w) in enumerate(zip(vals, want)):
                ctx.prove(sdsym.cterm(g_) == symx._real(symx._t(w)), f'variant {k!r} slot {i}', data('variant-value'))
    return index


def check_received(ctx, received, params, index, data):
    """the object the body got for each parameter is the control output at the parameter's slots"""
    sdf, ugn, iou, nse = M()
    for p in params:
        obj = received[p.name]
        outs = obj if isinstance(obj, list) else [obj]
        if len(outs) != p.size or (isinstance(obj, list) != (p.size > 1)):
            raise Violation(f'parameter {p.name!r} received {len(outs)} signal(s) for {p.size} default value(s)', None,
                            data('received-size'))
        for k, o in enumerate(outs):
            if not isinstance(o, ugn.OutputProxy) or not isinstance(o.source_ugen, iou.AbstractControl):
                raise Violation(f'parameter {p.name!r} did not receive a control output: {o!r}', None,
                                data('received-kind'))
            slot = o.source_ugen._special_index + o._output_index
            if slot != index[p.name] + k:
                raise Violation(f'parameter {p.name!r}[{k}] is wired to control slot {slot}, its name-table slot is '
                                f'{index[p.name] + k}', None, data('received-slot'))
    ctx.obligations += 1
    ctx.discharged += 1


def _mk(fam, rec):
    def data(sub):
        return {'key': f'c04:{sub}', 'replay': dict(rec, sub=sub, fam=fam)}
    return data


def out_body(received, names, extra=None):
    sdf, ugn, iou, nse = M()

    def body(*args):
        for n, a in zip(names, args):
            received[n] = a
        if extra:
            extra()
        iou.Out.kr(0, nse.LFNoise0.kr(700))
    return body


def fam_sig(ctx, kinds, prepend=0):
    sdf, ugn, iou, nse = M()
    names = [f'p{i}' for i in range(len(kinds))]
    params = [Param(ctx, n, KINDS[k], i) for i, (n, k) in enumerate(zip(names, kinds))]
    # parameters without default must form a prefix of the signature
    seen_default = False
    for p in params:
        if p.default is None and seen_default:
            raise PathAbort('non-default after default')
        if p.default is not None:
            seen_default = True
    pre_names = [f'pre{i}' for i in range(prepend)]
    if prepend and any(p.default is None for p in params):
        pass
    rec = {'mode': 'nrt', 'kinds': list(kinds), 'prepend': prepend,
           'names': [v for v in ctx.vars]}
    data = _mk('sig', rec)
    received = {}
    fn = make_func(pre_names + names, [None] * prepend + [p.default for p in params],
                   [None] * prepend + [p.annot for p in params], out_body(received, pre_names + names))
    kw = {}
    ra = rates_arg(params)
    if ra is not None:
        kw['rates'] = list(ra)
    if prepend:
        kw['prepend'] = [11.0 + i for i in range(prepend)]
    try:
        sd, b = sdsym.build_bytes('sig', fn, **kw)
    except (PathAbort, Inconclusive, Violation):
        raise
    except Exception as e:
        raise Violation(f'valid signature does not compile: {type(e).__name__}: {e}', None, data('compile'))
    try:
        d = scgf.parse(b)[0]
    except scgf.FormatError as e:
        raise Violation(f'not SCgf-2: {e}', None, data('format'))
    probs = scgf.validate(d)
    if probs:
        raise Violation('malformed definition: ' + '; '.join(probs[:3]), None, data('structure'))
    index = check_layout(ctx, d, [params], data)
    check_received(ctx, received, params, index, data)
    for i in range(prepend):
        if received.get(f'pre{i}') != 11.0 + i:
            raise Violation('prepended argument not passed through', None, data('prepend'))
    # callable interface: positional arguments map to the parameter names (NRT score)
    ctx.note('sig')
    ctx.note('lagged' if any(u['cls'] == 'LagControl' for u in d['ugens']) else 'unlagged')
    return {'kinds': list(kinds), 'prepend': prepend}


def fam_wrap(ctx, kinds, ikinds):
    sdf, ugn, iou, nse = M()
    names = [f'p{i}' for i in range(len(kinds))]
    inames = [f'w{i}' for i in range(len(ikinds))]
    params = [Param(ctx, n, KINDS[k], i) for i, (n, k) in enumerate(zip(names, kinds))]
    iparams = [Param(ctx, n, KINDS[k], i) for i, (n, k) in enumerate(zip(inames, ikinds))]
    for ps in (params, iparams):
        seen = False
        for p in ps:
            if p.default is None and seen:
                raise PathAbort('signature')
            seen = seen or p.default is not None
    rec = {'mode': 'nrt', 'kinds': list(kinds), 'ikinds': list(ikinds), 'names': [v for v in ctx.vars]}
    data = _mk('wrap', rec)
    received = {}
    inner = make_func(inames, [p.default for p in iparams], [p.annot for p in iparams],
                      lambda *a: received.update(zip(inames, a)))
    ira = rates_arg(iparams)

    def extra():
        sdf.SynthDef.wrap(inner, list(ira) if ira is not None else None)
    fn = make_func(names, [p.default for p in params], [p.annot for p in params], out_body(received, names, extra))
    kw = {}
    ra = rates_arg(params)
    if ra is not None:
        kw['rates'] = list(ra)
    try:
        sd, b = sdsym.build_bytes('wrp', fn, **kw)
    except (PathAbort, Inconclusive, Violation):
        raise
    except Exception as e:
        raise Violation(f'valid wrapped signature does not compile: {type(e).__name__}: {e}', None, data('compile'))
    d = scgf.parse(b)[0]
    probs = scgf.validate(d)
    if probs:
        raise Violation('malformed definition: ' + '; '.join(probs[:3]), None, data('structure'))
    index = check_layout(ctx, d, [params, iparams], data)
    check_received(ctx, received, params + iparams, index, data)
    ctx.note('wrap')
    return {'kinds': list(kinds), 'ikinds': list(ikinds)}


def fam_variants(ctx, kinds, nvar):
    sdf, ugn, iou, nse = M()
    names = [f'p{i}' for i in range(len(kinds))]
    params = [Param(ctx, n, KINDS[k], i) for i, (n, k) in enumerate(zip(names, kinds))]
    rec = {'mode': 'nrt', 'kinds': list(kinds), 'nvar': nvar, 'names': [v for v in ctx.vars]}
    data = _mk('variants', rec)
    received = {}
    variants = {}
    for v in range(nvar):
        pairs = {}
        # each variant overrides a different subset: earlier variants override parameters that later ones do not
        for i, p in enumerate(params):
            if (i + v) % 2 == 0:
                vals = [ctx.real(f'var{v}_{p.name}_{j}') for j in range(p.size if v % 2 == 0 else 1)]
                pairs[p.name] = vals if len(vals) > 1 else vals[0]
        variants[f'v{v}'] = pairs
    fn = make_func(names, [p.default for p in params], [p.annot for p in params], out_body(received, names))
    kw = {'variants': variants}
    ra = rates_arg(params)
    if ra is not None:
        kw['rates'] = list(ra)
    try:
        sd, b = sdsym.build_bytes('vr', fn, **kw)
    except (PathAbort, Inconclusive, Violation):
        raise
    except Exception as e:
        raise Violation(f'valid definition with variants does not compile: {type(e).__name__}: {e}', None,
                        data('compile'))
    try:
        d = scgf.parse(b)[0]
    except scgf.FormatError as e:
        raise Violation(f'not SCgf-2: {e}', None, data('format'))
    index = check_layout(ctx, d, [params], data, variants=variants, defname='vr')
    ctx.note('variants')
    return {'kinds': list(kinds), 'nvar': nvar}


def fam_meta(ctx):
    """missing defaults are filled from metadata specs"""
    sdf, ugn, iou, nse = M()
    from sc3.synth import spec as spc
    dflt = ctx.real('spec_default')
    p1 = Param(ctx, 'p1', KINDS[0], 1)
    rec = {'mode': 'nrt', 'names': ['spec_default', 'p1_d', 'spec_default_p1']}
    data = _mk('meta', rec)
    received = {}
    # optionally one prepended argument in front (it is not a control: names and spec defaults keep their pairing)
    pre = ctx.choose('meta_prepend', 2)
    rec['sel'] = {'meta_prepend': pre}
    names = (['pre'] if pre else []) + ['p0', 'pz', 'p1']
    fn = make_func(names, [None] * (len(names) - 1) + [p1.default], [None] * len(names), out_body(received, names))

    class Spec:
        default = dflt

    class Spec1:
        # a spec for a parameter that HAS a default of its own (any value, zero included): the spec must not win
        default = ctx.real('spec_default_p1')
    try:
        kw = {'prepend': [7.0]} if pre else {}
        sd, b = sdsym.build_bytes('mt', fn, metadata={'specs': {'p0': Spec(), 'p1': Spec1()}}, **kw)
    except (PathAbort, Inconclusive, Violation):
        raise
    except Exception as e:
        raise Violation(f'metadata spec default: {type(e).__name__}: {e}', None, data('compile'))
    d = scgf.parse(b)[0]

    class P:
        pass
    p0, pz = P(), P()
    for p, nm, val in ((p0, 'p0', dflt), (pz, 'pz', 0.0)):
        p.name, p.rate, p.values, p.size, p.lags = nm, 'kr', [val], 1, [0.0]
    check_layout(ctx, d, [[p0, pz, p1]], data)
    ctx.note('meta')
    return {'fam': 'meta'}


def fam_call(ctx, prepend, wrap):
    """SynthDef.__call__ maps positional and keyword arguments to the control names (NRT score)"""
    sdf, ugn, iou, nse = M()
    from sc3.base import main as _m
    main = _m.main
    a, b_, c = 111.0, 0.25, -0.5      # concrete: the OSC encoder is not part of this check (C06)
    rec = {'mode': 'nrt', 'prepend': prepend, 'wrap': wrap, 'names': []}
    data = _mk('call', rec)
    received = {}

    def inner(x=1.0, y=2.0):
        return None

    def extra():
        if wrap:
            sdf.SynthDef.wrap(inner)
    names = ['pre'] * prepend + ['freq', 'amp', 'pan']
    fn = make_func(names, [None] * prepend + [440.0, 0.1, 0.0], [None] * len(names), out_body(received, names, extra))
    kw = {'prepend': [5.0]} if prepend else {}
    try:
        with sdsym.SDEnv():
            sd = sdf.SynthDef('cl', fn, **kw)
            main.reset()
            sd(a, b_, pan=c)
            score = main.process()
            lst = list(score.list)
    except (PathAbort, Inconclusive, Violation):
        raise
    except Exception as e:
        raise Violation(f'calling the definition failed: {type(e).__name__}: {e}', None, data('call-raises'))
    finally:
        try:
            main.reset()
        except Exception:
            pass
    msgs = [m for ent in lst for m in ent[1:] if isinstance(m, (list, tuple)) and m and m[0] == '/s_new']
    if len(msgs) != 1:
        raise Violation(f'{len(msgs)} /s_new commands for one call', None, data('call-count'))
    args = list(msgs[0][5:])
    pairs = dict(zip(args[0::2], args[1::2]))
    want = {'freq': a, 'amp': b_, 'pan': c}
    if set(pairs) != set(want):
        raise Violation(f'calling sd(a, b, pan=c) set the controls {sorted(pairs)}, the parameters are freq, amp '
                        f'(positional) and pan (keyword)', None, data('call-names'))
    for k, v in want.items():
        ctx.prove(bool(abs(float(pairs[k]) - v) < 1e-6), f'value passed for control {k!r}', data('call-value'))
    ctx.note('call')
    return {'fam': 'call', 'prepend': prepend, 'wrap': wrap}


def job(j):
    fam = j['fam']
    tot = symx.Stats()
    items = j['items']
    for it in items:
        if fam == 'sig':
            h = lambda c: fam_sig(c, it['kinds'], it.get('prepend', 0))            # noqa
        elif fam == 'wrap':
            h = lambda c: fam_wrap(c, it['kinds'], it['ikinds'])                    # noqa
        elif fam == 'variants':
            h = lambda c: fam_variants(c, it['kinds'], it['nvar'])                  # noqa
        elif fam == 'meta':
            h = fam_meta
        else:
            h = lambda c: fam_call(c, it['prepend'], it['wrap'])                    # noqa
        st = explore(h, max_paths=60000 if j.get('big') else 2000, timeout_ms=20000, stop_on_violation=True)
        tot.merge(st)
        if len(tot.violations) >= 3:
            break
    d = tot.as_dict()
    for v in d['violations']:
        rec = v['data']['replay']
        rec['values'] = {n: v['model'].get(n) for n in v['model']}
        rec['what'] = v['what']
    d['programs'] = len(items)
    return d


# ------------------------------------------------------------------ replay

class _CCtx:
    def __init__(self, vals):
        self.vals = vals
        self.vars = {}
        self.obligations = self.discharged = 0

    def real(self, name, *a, **k):
        self.vars[name] = 1
        v = self.vals.get(name)
        # distinct, recognisable defaults when the model left a value unconstrained
        return float(v) if v is not None else 0.25 + (hash(name) % 97) / 8.0

    def note(self, s):
        pass

    def choose(self, name, n):
        return int(self.vals.get(name, 0) or 0)

    def idx(self, name, lo, hi):
        v = self.vals.get(name)
        return int(v) if v is not None else lo

    def prove(self, cond, what='', data=None):
        ok = cond if isinstance(cond, bool) else z3.is_true(z3.simplify(cond))
        if not ok:
            raise Violation(what, None, data)

    def valid(self, cond):
        return cond if isinstance(cond, bool) else z3.is_true(z3.simplify(cond))


def replay(rec):
    ctx = _CCtx(dict(rec.get('values', {}), **rec.get('sel', {})))
    fam = rec['fam']
    try:
        if fam == 'sig':
            fam_sig(ctx, rec['kinds'], rec.get('prepend', 0))
        elif fam == 'wrap':
            fam_wrap(ctx, rec['kinds'], rec['ikinds'])
        elif fam == 'variants':
            fam_variants(ctx, rec['kinds'], rec['nvar'])
        elif fam == 'meta':
            fam_meta(ctx)
        else:
            fam_call(ctx, rec['prepend'], rec['wrap'])
    except Violation as v:
        return v.what
    except PathAbort:
        return None
    return None


# ------------------------------------------------------------------ main

def main(tier, seed):
    sdf, ugn, iou, nse = M()
    chk = Check(PID, 'translation_validation', tier, seed)
    S = sdf.SynthDef
    chk.functions = src_hash([S._args_to_controls, S._get_valid_arg_values, S._apply_metadata_specs, S._build_controls,
                              S._build_ugen_graph, S._add_kr, S._add_ir, S._add_tr, S._add_ar, S.wrap, S._write_def,
                              S.__call__, iou.Control, iou.LagControl, iou.AudioControl, iou.TrigControl])
    nk = len(KINDS)
    items = []
    nmax = 3 if tier == 'quick' else 4
    ks = list(range(nk)) if tier == 'thorough' else [0, 1, 2, 3, 4, 5, 6, 7, 8, 10, 11]
    for n in range(0, nmax + 1):
        pool = ks if n <= 3 else [0, 1, 3, 5, 7, 8, 11]
        for kinds in itertools.product(pool, repeat=n):
            items.append(dict(kinds=list(kinds), prepend=0))
    for kinds in itertools.product([0, 1, 3, 6, 8], repeat=2):
        items.append(dict(kinds=list(kinds), prepend=1))
    B = 40
    jobs = [dict(fam='sig', items=items[i:i + B]) for i in range(0, len(items), B)]
    if tier == 'thorough':      # 10 fixed long signatures (12 parameters, kinds drawn once from a seeded generator)
        import random
        rnd = random.Random(4)
        for _ in range(10):
            jobs.append(dict(fam='sig', big=True, items=[dict(
                kinds=[rnd.choice([0, 1, 2, 3, 4, 5, 6, 7, 10, 11]) for _ in range(12)], prepend=0)]))
    witems = [dict(kinds=list(k), ikinds=list(ik)) for k in itertools.product([0, 1, 2, 7], repeat=2)
              for ik in itertools.product([0, 3, 6, 1], repeat=2)]
    jobs += [dict(fam='wrap', items=witems[i:i + B]) for i in range(0, len(witems), B)]
    vitems = [dict(kinds=list(k), nvar=nv) for k in itertools.product([0, 1, 2, 5, 7], repeat=2) for nv in (1, 2, 3)]
    jobs += [dict(fam='variants', items=vitems[i:i + B]) for i in range(0, len(vitems), B)]
    jobs += [dict(fam='meta', items=[{}])]
    jobs += [dict(fam='call', items=[dict(prepend=p, wrap=w) for p in (0, 1) for w in (0, 1)])]
    nprog = 0
    for r in run_jobs('vf.props.c04', 'job', jobs, 'nrt'):
        chk.add('signatures', r)
        nprog += r.get('programs', 0)
    chk.programs = nprog
    chk.require_notes('signatures', ['sig', 'lagged', 'unlagged', 'wrap', 'variants', 'meta', 'call'])
    chk.bounds = {'parameter_kinds': [str(k) for k in KINDS], 'signature_length': f'0..{nmax} exhaustive over the '
                  'kind table' + ('; 10 fixed signatures of 12 parameters' if tier == 'thorough' else ''),
                  'prepend': '0..1', 'wrap_depth': 1, 'variants': '1..3',
                  'outside': 'wrap nesting deeper than 1, rate names in metadata, non-numeric defaults'}
    chk.assumptions = ['default, lag and variant values are exact reals',
                       'reference layout transcribed from the property statement (vf/props/c04.py reference())']
    return chk.finish(explanation='decoded definition vs reference layout; z3 equality for every value')
