"""C03 -- multichannel expansion follows the wrap-and-zip law everywhere.

For every unit-generator class whose audio constructor delegates directly to the generic expansion (enumerated by
introspection of the real code), for the arithmetic operators and for ChannelList's convenience methods: the call
with list arguments is made in one real build, and -- independently -- the single-channel calls prescribed by the
law (element i modulo length, recursively; tuples and scalars not expanded) are made in a second build.  The two
decoded definitions must be identical, the result must be a channel list shaped like the reference, and exactly one
unit per combination is created.  Argument shapes (which positions carry lists, their lengths 1..3, nesting) are
finite control explored completely; the Out zero-replacement law uses symbolic element values (== 0 forks).
"""
import inspect
import itertools
import re
import z3
from .. import symx, scgf, sdsym
from ..symx import explore, Violation, PathAbort, SymReal, Inconclusive
from ..run import Check, run_jobs, src_hash

PID = 'C03'

QUICK_CLASSES = ['SinOsc', 'LFNoise0', 'LFPulse', 'Line', 'LPF', 'XFade2', 'Decay2', 'TRand']
# argument shapes: 's' scalar, 'l1' 'l2' 'l3' flat lists, 'n' ragged nested [x, [y, z]], 'nn' [[x, y], z], 't' tuple is
# only used where a class takes a tuple (not for generic oscillators)
SHAPES = ['s', 'l1', 'l2', 'l3', 'n', 'nn']


def M():
    from sc3.synth import ugens as ugns, ugen as ugn, synthdef as sdf
    from sc3.synth.ugens import inout as iou, noise as nse, oscillators as ocl, line as lne
    return dict(ugns=ugns, ugn=ugn, sdf=sdf, iou=iou, nse=nse, ocl=ocl, lne=lne)


def classes():
    m = M()
    ugn = m['ugn']
    found = []
    for name, cls in sorted(m['ugns'].installed_ugens.items()):
        if not inspect.isclass(cls) or not issubclass(cls, ugn.UGen) or issubclass(cls, ugn.MultiOutUGen):
            continue
        if 'ar' not in cls.__dict__:
            continue
        if cls._new1.__func__ is not ugn.SynthObject._new1.__func__ or \
                cls._init_ugen is not ugn.SynthObject._init_ugen or \
                cls._multi_new.__func__ is not ugn.SynthObject._multi_new.__func__:
            continue
        try:
            src = inspect.getsource(cls.__dict__['ar'].__func__)
        except Exception:
            continue
        mm = re.search(r"return cls\._multi_new\(\s*'audio',\s*([\w,\s]+)\)", src)
        if not mm:
            continue
        # "delegates straight": the body is nothing but that return (constructors that first convert an argument,
        # e.g. to audio rate, create helper units of their own and are outside the law as stated)
        try:
            import ast
            import textwrap
            fdef = ast.parse(textwrap.dedent(src)).body[0]
            stmts = [st for st in fdef.body
                     if not (isinstance(st, ast.Expr) and isinstance(getattr(st, 'value', None), ast.Constant))]
            if len(stmts) != 1 or not isinstance(stmts[0], ast.Return):
                continue
        except SyntaxError:
            continue
        args = [a.strip() for a in mm.group(1).split(',') if a.strip()]
        params = list(inspect.signature(cls.ar).parameters)
        if args != params or len(params) < 1:
            continue
        found.append(name)
    return found


def mkval(shape, base):
    """concrete, recognisable element values (structure is what matters here)"""
    if shape == 's':
        return base + 0.5
    if shape in ('l1', 'l2', 'l3'):
        return [base + 1.0 + i for i in range(int(shape[1]))]
    if shape == 'n':
        return [base + 1.0, [base + 2.0, base + 3.0]]
    if shape == 'nn':
        return [[base + 1.0, base + 2.0], base + 3.0]
    raise KeyError(shape)


def ref_expand(call, args):
    ls = [a for a in args if isinstance(a, list)]
    if not ls:
        return call(*args)
    n = max(len(a) for a in ls)
    return [ref_expand(call, [a[i % len(a)] if isinstance(a, list) else a for a in args]) for i in range(n)]


def shape_of(x):
    if isinstance(x, list):
        return [shape_of(i) for i in x]
    return 0


def flat(x):
    if isinstance(x, list):
        out = []
        for i in x:
            out += flat(i)
        return out
    return [x]


def build_pair(make_multi, make_ref, data, what, out_rate='ar'):
    """two builds; returns (multi def, ref def, multi result shape ok)"""
    m = M()
    iou, sdf, ugn = m['iou'], m['sdf'], m['ugn']
    res = {}

    out = iou.Out.ar if out_rate == 'ar' else iou.Out.kr

    def g_multi():
        r = make_multi()
        res['multi'] = r
        out(0, flat(r))

    def g_ref():
        r = make_ref()
        res['ref'] = r
        out(0, flat(r))
    outs = []
    for g in (g_multi, g_ref):
        try:
            sd, b = sdsym.build_bytes('x', g)
            outs.append(scgf.parse(b)[0])
        except (PathAbort, Inconclusive, Violation):
            raise
        except scgf.FormatError as e:
            raise Violation(f'{what}: bytes not SCgf-2: {e}', None, data('format'))
        except Exception as e:
            outs.append(('raised', type(e).__name__, str(e)[:80]))
    a, b = outs
    if isinstance(a, tuple) or isinstance(b, tuple):
        if isinstance(a, tuple) and isinstance(b, tuple):
            raise PathAbort('both builds reject these arguments')
        raise Violation(f'{what}: expanded build {"raises " + str(a[1:]) if isinstance(a, tuple) else "compiles"} but '
                        f'the single-channel calls {"raise " + str(b[1:]) if isinstance(b, tuple) else "compile"}',
                        None, data('raise-mismatch'))
    r = res['multi']
    if isinstance(res['ref'], list):
        def is_cl(x, ref, top=True):
            # the result is a channel list; nested elements must be list-shaped like the reference
            if isinstance(ref, list):
                return isinstance(x, ugn.ChannelList if top else list) and len(x) == len(ref) and \
                    all(is_cl(i, j, False) for i, j in zip(x, ref))
            return not isinstance(x, list)
        if not is_cl(r, res['ref']):
            raise Violation(f'{what}: result is not a channel list shaped like the reference '
                            f'({shape_of(r)} vs {shape_of(res["ref"])})', None, data('result-shape'))
    elif isinstance(r, list):
        raise Violation(f'{what}: scalar/tuple arguments were expanded', None, data('result-shape'))
    def canon(d):
        # constants by value: the order of the constant table is an encoding detail, not part of the law
        return [dict(u, ins=[('c', d['consts'][k]) if src == -1 else (src, k) for src, k in u['ins']]) for u in d['ugens']]
    if canon(a) != canon(b) or sorted(a['consts']) != sorted(b['consts']):
        na, nb = len(a['ugens']), len(b['ugens'])
        raise Violation(f'{what}: expanded call compiles to {na} units {[u["cls"] for u in a["ugens"]][:8]}, the '
                        f'single-channel calls to {nb} units {[u["cls"] for u in b["ugens"]][:8]} (or different '
                        f'wiring)', None, data('different-definition'))
    return a, b


def fam_class(ctx, cname, npos):
    """class constructor: every combination of shapes on the first npos positions"""
    m = M()
    cls = m['ugns'].installed_ugens[cname]
    params = list(inspect.signature(cls.ar).parameters.values())
    npos = min(npos, len(params))
    shapes = [SHAPES[ctx.choose(f'shape{i}', len(SHAPES))] for i in range(npos)]
    src_audio = ctx.choose('first_is_audio', 2)
    rec = {'mode': 'nrt', 'fam': 'class', 'cls': cname, 'shapes': shapes, 'audio': src_audio, 'npos': npos}

    def data(sub):
        return {'key': f'c03:class:{sub}', 'replay': dict(rec, sub=sub)}

    def args_for(make_leaf):
        args = []
        for i in range(npos):
            v = mkval(shapes[i], 10.0 * (i + 1))
            if i == 0 and src_audio:
                v = make_leaf(v)
            args.append(v)
        return args

    def leafify(v):
        # audio-rate sources in place of the numbers (filters and the like need an audio first input)
        if isinstance(v, list):
            return [leafify(i) for i in v]
        return m['nse'].LFNoise0.ar(v)
    what = f'{cname}.ar{tuple(shapes)}'
    a, b = build_pair(lambda: cls.ar(*args_for(leafify)),
                      lambda: ref_expand(lambda *x: cls.ar(*x), args_for(leafify)), data, what)
    # exactly one unit per combination
    n_units = sum(1 for u in a['ugens'] if u['cls'] == cname)
    want = len(flat(ref_expand(lambda *x: 0, args_for(lambda v: v))))
    if cname != 'LFNoise0' and n_units != want:
        raise Violation(f'{what}: {n_units} {cname} units for {want} combinations', None, data('unit-count'))
    ctx.obligations += 1
    ctx.discharged += 1
    ctx.note('class')
    return {'call': what}


BINOPS = ['+', '*', '-', 'max', 'pow']


def fam_op(ctx):
    """arithmetic operators between channel lists, units, plain lists and numbers (incl. reflected forms)"""
    m = M()
    nse, ugn = m['nse'], m['ugn']
    op = BINOPS[ctx.choose('op', len(BINOPS))]
    lk = ctx.choose('left', 5)      # 0 unit, 1 channel list of units, 2 plain list, 3 number, 4 nested channel list
    rk = ctx.choose('right', 5)
    if lk in (2, 3) and rk in (2, 3):
        raise PathAbort('no unit involved')
    nl = ctx.choose('nl', 3) + 1
    nr = ctx.choose('nr', 3) + 1
    rec = {'mode': 'nrt', 'fam': 'op', 'op': op, 'lk': lk, 'rk': rk, 'nl': nl, 'nr': nr}

    def data(sub):
        return {'key': f'c03:op:{sub}', 'replay': dict(rec, sub=sub)}

    def operand(kind, n, base, wrap):
        if kind == 0:
            return nse.LFNoise0.ar(base)
        if kind == 1:
            return wrap([nse.LFNoise0.ar(base + i) for i in range(n)])
        if kind == 2:
            return [base + 0.5 + i for i in range(n)]
        if kind == 3:
            return base + 0.25
        return wrap([nse.LFNoise0.ar(base), wrap([nse.LFNoise0.ar(base + 1), nse.LFNoise0.ar(base + 2)])])

    def apply(a, b):
        if op == '+':
            return a + b
        if op == '*':
            return a * b
        if op == '-':
            return a - b
        if op == 'max':
            from sc3.base import builtins as bi
            return bi.max(a, b)
        return a ** b

    def plain(x):
        return [plain(i) for i in x] if isinstance(x, list) else x
    what = f'{op} {["unit", "channels", "list", "number", "nested"][lk]}[{nl}] {["unit", "channels", "list", "number", "nested"][rk]}[{nr}]'
    if lk == 2 and rk == 0 and op in ('+', '*'):
        raise PathAbort('plain list + unit is Python list arithmetic')

    def multi():
        a = operand(lk, nl, 100.0, ugn.ChannelList)
        b = operand(rk, nr, 200.0, ugn.ChannelList)
        if lk == 2:
            a = ugn.ChannelList(a)      # a plain Python list on the left has its own + and *
        return apply(a, b)

    def ref():
        a = plain(operand(lk, nl, 100.0, list))
        b = plain(operand(rk, nr, 200.0, list))
        return ref_expand(apply, [a, b])
    build_pair(multi, ref, data, what)
    ctx.obligations += 1
    ctx.discharged += 1
    ctx.note('op')
    return {'call': what}


METHODS = [('lag', 1), ('madd', 2), ('range', 2), ('clip', 2), ('lag2', 1), ('linlin', 4), ('min', 1), ('round', 1),
           ('wrap', 2), ('lagud', 2), ('linexp', 4), ('lag3', 1), ('lag2ud', 2), ('lag3ud', 2), ('slew', 2), ('fold', 2),
           ('exprange', 2), ('moddif', 2), ('blend', 2), ('explin', 4), ('expexp', 4)]
CLIP_ARG = [(), (None,), ('max',)]       # trailing clip argument of the range-mapping methods: default, "do not clip", one side


def fam_method(ctx):
    """ChannelList convenience methods: zipped with their (list) arguments, wrap-around on both sides"""
    m = M()
    nse, ugn = m['nse'], m['ugn']
    name, nargs = METHODS[ctx.choose('method', len(METHODS))]
    n = ctx.choose('n', 3) + 1
    shapes = [['s', 'l1', 'l2', 'l3'][ctx.choose(f'shape{i}', 4)] for i in range(min(nargs, 2))]
    shapes += ['s'] * (nargs - len(shapes))
    rec = {'mode': 'nrt', 'fam': 'method', 'method': name, 'n': n, 'shapes': shapes}

    def data(sub):
        return {'key': f'c03:method:{sub}', 'replay': dict(rec, sub=sub)}
    args = [mkval(s, 0.1 * (i + 1)) for i, s in enumerate(shapes)]
    what = f'ChannelList[{n}].{name}{tuple(shapes)}'
    if name in ('linlin', 'linexp', 'explin', 'expexp'):
        ck = ctx.choose('clip', len(CLIP_ARG))
        rec['clip'] = ck
        args = args + list(CLIP_ARG[ck])
        what += f' clip={CLIP_ARG[ck]}'

    mixed = ctx.choose('mixed_rates', 2)       # channels of different rates: every channel keeps ITS rate
    rec['mixed'] = mixed

    def chans():
        return [(nse.LFNoise0.kr if (mixed and i % 2) else nse.LFNoise0.ar)(300.0 + i) for i in range(n)]

    def multi():
        cl = ugn.ChannelList(chans())
        return getattr(cl, name)(*args)

    def ref():
        cl = chans()
        return ref_expand(lambda u, *a: getattr(u, name)(*a), [cl] + args)
    build_pair(multi, ref, data, what, out_rate='kr' if mixed else 'ar')
    ctx.obligations += 1
    ctx.discharged += 1
    ctx.note('method')
    return {'call': what}


def fam_out(ctx):
    """output units get the flattened array with literal zeros replaced by one audio-rate silence"""
    m = M()
    nse, iou, ugn = m['nse'], m['iou'], m['ugn']
    x, y = ctx.real('x'), ctx.real('y')
    sh = ctx.choose('shape', 7)
    rec = {'mode': 'nrt', 'fam': 'out', 'shape': sh, 'names': ['x', 'y']}

    def data(sub):
        return {'key': f'c03:out:{sub}', 'replay': dict(rec, sub=sub)}
    sdsym.avoid(ctx, [x, y], [401, 402])

    def g():
        a, b = nse.LFNoise0.ar(401), nse.LFNoise0.ar(402)
        arr = [[a, x, b, y], ugn.ChannelList([a, x, b, 0, y]), ugn.ChannelList([x, a, y, 0.0, b]), [x, y],
               [a, [x, [b, 0]], y],
               # nested channel lists (what `sig * [1, 0]` produces), zeros inside them
               [ugn.ChannelList([a, 0]), ugn.ChannelList([0.0, b])],
               ugn.ChannelList([ugn.ChannelList([a, x]), ugn.ChannelList([y, b])])][sh]
        iou.Out.ar(0, arr)
    try:
        sd, b = sdsym.build_bytes('o', g)
    except (PathAbort, Inconclusive, Violation):
        raise
    except Exception as e:
        # two numbers that are not zero are not audio-rate signals: the library refuses them; fine
        if sh != 5 and ctx.valid(z3.Or(x.e != 0, y.e != 0) if isinstance(x, SymReal) else bool(x != 0 or y != 0)) \
                and 'audio rate' in str(e):
            ctx.note('out-rejected-nonzero-number')
            raise PathAbort('non-zero number into Out.ar')
        raise Violation(f'Out.ar of an array does not compile: {type(e).__name__}: {e}', None, data('compile'))
    try:
        d = scgf.parse(b)[0]
    except scgf.FormatError as e:
        raise Violation(f'Out.ar of an array: bytes are not SCgf-2: {e}', None, data('format'))
    den = sdsym.Denot(d)
    dcs = [i for i, u in enumerate(d['ugens']) if u['cls'] == 'DC']
    if sh >= 4:
        # a nested array expands into several output units (the law applied to Out itself); every channel input
        # must still be a signal: no bare zero constants
        for (ui, cls, rate, ins) in den.outs:
            for k, (su, so) in enumerate(d['ugens'][ui]['ins'][1:]):
                if su < 0:
                    raise Violation(f'Out channel {k} is a bare constant, not audio-rate silence', None,
                                    data('out-zero'))
        ctx.obligations += 1
        ctx.discharged += 1
        ctx.note('out-nested')
        return {'call': 'Out.ar nested'}
    if len(den.outs) != 1:
        raise Violation(f'{len(den.outs)} Out units for a flat array', None, data('out-count'))
    ui, cls, rate, ins = den.outs[0]
    want = [['a', 'x', 'b', 'y'], ['a', 'x', 'b', 0, 'y'], ['x', 'a', 'y', 0, 'b'], ['x', 'y']][sh]
    if len(ins) != 1 + len(want):
        raise Violation(f'Out has {len(ins) - 1} channel inputs, the array has {len(want)}', None,
                        data('out-flatten'))
    u = d['ugens'][ui]
    for k, w in enumerate(want):
        src_u, src_o = u['ins'][1 + k]
        if w in ('a', 'b'):
            tag = 401.0 if w == 'a' else 402.0
            ok = src_u >= 0 and d['ugens'][src_u]['cls'] == 'LFNoise0' and \
                d['consts'][d['ugens'][src_u]['ins'][0][1]] == tag
            if not ok:
                raise Violation(f'Out channel {k} is not wired to the {w} generator', None, data('out-order'))
        else:
            # a literal zero (or a symbolic number that is zero on this path) must be the silence unit
            if src_u < 0:
                raise Violation(f'Out channel {k} is a bare constant, not audio-rate silence', None, data('out-zero'))
            if d['ugens'][src_u]['cls'] != 'DC' or d['ugens'][src_u]['rate'] != 2:
                raise Violation(f'Out channel {k} is {d["ugens"][src_u]["cls"]}, expected audio-rate silence', None,
                                data('out-zero'))
            ctx.prove(den.vals[src_u][src_o] == 0, f'silence unit for channel {k} is not zero', data('out-zero'))
    if len(dcs) > 1:
        raise Violation(f'{len(dcs)} silence units for one Out call', None, data('out-silence-count'))
    ctx.note('out')
    return {'call': f'Out.ar shape {sh}'}


OUT_CLASSES = [('Out', 1), ('ReplaceOut', 1), ('OffsetOut', 1), ('XOut', 2)]


DEFAULT_METHODS = ['lag', 'lag2', 'lag3', 'lagud', 'lag2ud', 'lag3ud', 'range', 'exprange', 'curverange', 'unipolar',
                   'bipolar', 'clip', 'fold', 'wrap', 'madd']


def fam_defaults(ctx):
    """convenience methods called WITHOUT arguments: the channel list's defaults are the single channel's defaults"""
    m = M()
    nse, ugn = m['nse'], m['ugn']
    k = ctx.choose('method', len(DEFAULT_METHODS))
    name = DEFAULT_METHODS[k]
    n = 1 + ctx.choose('n', 2)
    rec = {'mode': 'nrt', 'fam': 'defaults', 'sel': {'method': k, 'n': n - 1}}

    def data(sub):
        return {'key': f'c03:defaults:{sub}', 'replay': dict(rec, sub=sub)}
    what = f'ChannelList[{n}].{name}()'

    def multi():
        return getattr(ugn.ChannelList([nse.LFNoise0.ar(300.0 + i) for i in range(n)]), name)()

    def ref():
        return [getattr(nse.LFNoise0.ar(300.0 + i), name)() for i in range(n)]
    build_pair(multi, ref, data, what)
    ctx.obligations += 1
    ctx.discharged += 1
    ctx.note('defaults')
    return {'call': what}


def fam_outs(ctx):
    """every output class at audio and control rate: a flat channel array with a scalar bus makes ONE output unit that
    carries all channels in order (the array is the unit's channel list, not one more argument to expand)"""
    m = M()
    nse, iou = m['nse'], m['iou']
    k = ctx.choose('cls', len(OUT_CLASSES))
    name, fixed = OUT_CLASSES[k]
    rate = ('ar', 'kr')[ctx.choose('rate', 2)]
    if name == 'OffsetOut' and rate == 'kr':
        raise PathAbort('OffsetOut is audio rate only')
    n = 1 + ctx.choose('n', 3)
    rec = {'mode': 'nrt', 'fam': 'outs', 'sel': {'cls': k, 'rate': 0 if rate == 'ar' else 1, 'n': n - 1}}

    def data(sub):
        return {'key': f'c03:outs:{sub}', 'replay': dict(rec, sub=sub)}

    def g():
        sigs = [getattr(nse.LFNoise0, rate)(401 + i) for i in range(n)]
        cls = getattr(iou, name)
        if name == 'XOut':
            getattr(cls, rate)(3, 0.5, sigs)
        else:
            getattr(cls, rate)(3, sigs)
    try:
        sd, b = sdsym.build_bytes('os', g)
    except (PathAbort, Inconclusive, Violation):
        raise
    except Exception as e:
        raise Violation(f'{name}.{rate} of {n} channels does not compile: {type(e).__name__}: {e}', None, data('compile'))
    d = scgf.parse(b)[0]
    outs = [u for u in d['ugens'] if u['cls'] == name]
    if len(outs) != 1:
        raise Violation(f'{name}.{rate}(bus, [{n} channels]) compiles to {len(outs)} {name} units, expected one unit '
                        f'with {n} channel inputs', None, data('unit-count'))
    u = outs[0]
    if len(u['ins']) != fixed + n:
        raise Violation(f'{name}.{rate}: the unit has {len(u["ins"]) - fixed} channel inputs, the array has {n}', None,
                        data('channels'))
    for i in range(n):
        su, so = u['ins'][fixed + i]
        ok = su >= 0 and d['ugens'][su]['cls'] == 'LFNoise0' and d['consts'][d['ugens'][su]['ins'][0][1]] == 401.0 + i
        if not ok:
            raise Violation(f'{name}.{rate}: channel {i} is not wired to generator {i}', None, data('order'))
    ctx.obligations += 1
    ctx.discharged += 1
    ctx.note('outs')
    return {'call': f'{name}.{rate} x{n}'}


def fam_tuple(ctx):
    """tuples are opaque: no expansion, one unit"""
    m = M()
    from sc3.synth.ugens import bufio
    nse, ugn, iou = m['nse'], m['ugn'], m['iou']
    rec = {'mode': 'nrt', 'fam': 'tuple'}

    def data(sub):
        return {'key': f'c03:tuple:{sub}', 'replay': dict(rec, sub=sub)}
    res = {}
    from sc3.synth import envelope as envl
    from sc3.synth.ugens import envgen as evg

    def g():
        res['r'] = m['ocl'].SinOsc.ar((440.0, 441.0), 0.0)
        res['r2'] = m['ocl'].SinOsc.ar([(1.0, 2.0), (3.0, 4.0, 5.0)], [0.0, 0.5, 0.25])
        res['n'] = len(m['sdf']._libsc3.main._current_synthdef._children)
        # a legitimate tuple argument: the envelope array of EnvGen stays one argument of one unit
        e = evg.EnvGen.kr(envl.Env([0, 1, 0], [1, 2]), [1, 0.5])
        res['e'] = e
        iou.Out.kr(0, e)
    try:
        with sdsym.SDEnv():
            sd = m['sdf'].SynthDef('tp', g)
    except Exception as e:
        raise Violation(f'tuple argument: {type(e).__name__}: {e}', None, data('compile'))
    if isinstance(res['r'], list):
        raise Violation('a tuple argument was expanded', None, data('tuple-expanded'))
    if not isinstance(res['r2'], ugn.ChannelList) or len(res['r2']) != 3:
        raise Violation('a list of tuples did not expand over the lists only', None, data('tuple-list'))
    if res['n'] != 4:
        raise Violation(f'{res["n"]} units created for 1 + 3 combinations', None, data('tuple-count'))
    for i, u in enumerate(res['r2']):
        want = [(1.0, 2.0), (3.0, 4.0, 5.0)][i % 2]
        if u.inputs[0] != want:
            raise Violation(f'channel {i} received {u.inputs[0]!r}, expected the tuple {want!r}', None,
                            data('tuple-element'))
    if not isinstance(res['e'], ugn.ChannelList) or len(res['e']) != 2:
        raise Violation('EnvGen with an envelope and a list gate did not expand to 2 channels', None, data('tuple-env'))
    ctx.obligations += 1
    ctx.discharged += 1
    ctx.note('tuple')
    return {'call': 'Dseq tuple'}


def job(j):
    fam = j['fam']
    if fam == 'class':
        h = lambda c: fam_class(c, j['cls'], j['npos'])      # noqa
    elif fam == 'op':
        h = fam_op
    elif fam == 'method':
        h = fam_method
    elif fam == 'out':
        h = fam_out
    elif fam == 'outs':
        h = fam_outs
    elif fam == 'defaults':
        h = fam_defaults
    else:
        h = fam_tuple
    st = explore(h, max_paths=20000, timeout_ms=20000, stop_on_violation=False)
    d = st.as_dict()
    seen, keep = set(), []
    for v in d['violations']:
        k = v['data']['key']
        if k in seen:
            continue
        seen.add(k)
        rec = v['data']['replay']
        rec['values'] = dict(v['model'])
        rec['what'] = v['what']
        keep.append(v)
    d['violations'] = keep
    return d


# ------------------------------------------------------------------ replay

class _CCtx:
    def __init__(self, vals):
        self.vals = vals
        self.obligations = self.discharged = 0

    def choose(self, name, n):
        return int(self.vals.get(name, 0) or 0)

    def real(self, name, *a, **k):
        v = self.vals.get(name)
        return float(v) if v is not None else 0.0

    def assume(self, c):
        pass

    def note(self, s):
        pass

    def prove(self, cond, what='', data=None):
        ok = cond if isinstance(cond, bool) else z3.is_true(z3.simplify(cond))
        if not ok:
            raise Violation(what, None, data)

    def valid(self, cond):
        return cond if isinstance(cond, bool) else z3.is_true(z3.simplify(cond))


def replay(rec):
    ctx = _CCtx(rec.get('values', {}))
    fam = rec['fam']
    try:
        if fam == 'class':
            fam_class(ctx, rec['cls'], rec['npos'])
        elif fam == 'op':
            fam_op(ctx)
        elif fam == 'method':
            fam_method(ctx)
        elif fam == 'out':
            fam_out(ctx)
        elif fam == 'outs':
            fam_outs(_CCtx(dict(rec.get('sel', {}))))
        elif fam == 'defaults':
            fam_defaults(_CCtx(dict(rec.get('sel', {}))))
        else:
            fam_tuple(ctx)
    except Violation as v:
        return v.what
    except PathAbort:
        return None
    return None


def main(tier, seed):
    m = M()
    ugn = m['ugn']
    chk = Check(PID, 'translation_validation', tier, seed)
    chk.functions = src_hash([ugn.SynthObject._multi_new, ugn.ChannelList, ugn.SynthObject._replace_zeroes_with_silence,
                              m['iou'].Out])
    allc = classes()
    cl = [c for c in QUICK_CLASSES if c in allc] if tier == 'quick' else allc
    jobs = [dict(fam='class', cls=c, npos=2 if tier == 'quick' else 3) for c in cl]
    jobs += [dict(fam='op'), dict(fam='method'), dict(fam='out'), dict(fam='outs'), dict(fam='defaults'), dict(fam='tuple')]
    for r in run_jobs('vf.props.c03', 'job', jobs, 'nrt'):
        chk.add('expansion', r)
    chk.require_notes('expansion', ['class', 'op', 'method', 'out', 'outs', 'defaults', 'tuple'])
    chk.programs = sum(a.get('paths', 0) for a in chk.parts.values())
    chk.bounds = {'classes': cl if tier == 'quick' else f'{len(allc)} classes found by introspection',
                  'argument_positions_with_lists': 2 if tier == 'quick' else 3, 'shapes': SHAPES,
                  'operators': BINOPS, 'methods': [m_[0] for m_ in METHODS],
                  'outside': 'classes that override expansion (Klang, Poll, MultiOut constructors ...); lists longer '
                             'than 3; nesting deeper than 2; empty lists'}
    chk.assumptions = ['element values are concrete distinct numbers (the law is structural); the zero-replacement '
                       'family uses symbolic numbers', 'the reference expansion ref_expand() is the property '
                       'statement transcribed (element i modulo length, recursively)']
    return chk.finish(explanation='expanded build vs the single-channel builds prescribed by the law: identical '
                                  'decoded definitions')
