"""C15 part (i): operators lift uniformly over functions, streams, patterns, channel lists, operands, rests.

Operators are enumerated by introspection of the real AbstractObject (methods) and sc3.base.builtins (function form,
incl. the reflected call with a plain number on the left).  Leaves are symbolic (a Real instance and an Int
instance); the composed object is evaluated and compared -- z3 equality of terms on every path -- with the numeric
operator applied to the evaluated operands (element-wise with wrap-around for channel lists, shortest operand for
patterns).  The oracle's numeric operator is chosen independently of the class's own dispatch tables: Python's
operator module for dunder methods, the builtins function of the same name applied to plain numbers otherwise.
"""
import inspect
import math
import operator
import z3
from .. import symx
from ..symx import explore, Violation, PathAbort, SymReal, SymInt, SymBool, Inconclusive

KINDS = ['func', 'stream', 'pattern', 'chanlist', 'operand', 'rest']
INVAL = 0.25       # input value handed to every stream's next()

DUNDER = {
    '__neg__': (operator.neg, 1, False), '__pos__': (operator.pos, 1, False), '__abs__': (operator.abs, 1, False),
    '__invert__': (operator.invert, 1, False),
    '__add__': (operator.add, 2, False), '__radd__': (operator.add, 2, True),
    '__sub__': (operator.sub, 2, False), '__rsub__': (operator.sub, 2, True),
    '__mul__': (operator.mul, 2, False), '__rmul__': (operator.mul, 2, True),
    '__truediv__': (operator.truediv, 2, False), '__rtruediv__': (operator.truediv, 2, True),
    '__floordiv__': (operator.floordiv, 2, False), '__rfloordiv__': (operator.floordiv, 2, True),
    '__mod__': ('bi.mod', 2, False), '__rmod__': ('bi.mod', 2, True),
    '__pow__': (operator.pow, 2, False), '__rpow__': (operator.pow, 2, True),
    '__lshift__': (operator.lshift, 2, False), '__rlshift__': (operator.lshift, 2, True),
    '__rshift__': (operator.rshift, 2, False), '__rrshift__': (operator.rshift, 2, True),
    '__and__': (operator.and_, 2, False), '__rand__': (operator.and_, 2, True),
    '__or__': (operator.or_, 2, False), '__ror__': (operator.or_, 2, True),
    '__xor__': (operator.xor, 2, False), '__rxor__': (operator.xor, 2, True),
    '__lt__': (operator.lt, 2, False), '__le__': (operator.le, 2, False), '__eq__': (operator.eq, 2, False),
    '__ne__': (operator.ne, 2, False), '__gt__': (operator.gt, 2, False), '__ge__': (operator.ge, 2, False),
    '__round__': ('bi.round', 2, False), '__trunc__': ('bi.trunc', 1, False), '__ceil__': ('bi.ceil', 1, False),
    '__floor__': ('bi.floor', 1, False),
}
ALIAS = {'not_': operator.not_, 'abs': operator.abs, 'neg': operator.neg, 'bitnot': operator.invert,
         'bitand': operator.and_, 'bitor': operator.or_, 'bitxor': operator.xor, 'lshift': operator.lshift,
         'rshift': operator.rshift}
# the method .pow() is Python's ** on the unchanged tree while bi.pow() is the server's sign-symmetric pow: the
# property does not say which one 'the numeric operator' is, so the method is held to ** and the function to bi.pow
AMBIGUOUS = {'pow': operator.pow}
RANDOM = {'rand', 'rand2', 'linrand', 'bilinrand', 'sum3rand', 'coin', 'rrand', 'exprand', 'xrand', 'xrand2', 'gauss'}
# kernels whose bodies loop on their arguments or go through C code that the proxies cannot follow: concrete leaves
CONCRETE_ONLY = {'gcd', 'lcm', 'next_power_of_two', 'next_near_power', 'previous_near_power', 'graycode', 'bitnot',
                 '__invert__', 'urshift', 'taylorsin', 'as_int', 'zapgremlins', 'hypotx'}
SKIP = {'__hash__', '_compose_unop', '_compose_binop', '_rcompose_binop', '_compose_narop'}


def _mods():
    from sc3.base import builtins as sbi, absobject as aob, functions as fn, stream as stm, operand as opd
    from sc3.seq import pattern as ptt
    from sc3.seq.patterns import listpatterns as lsp
    from sc3.seq import event as evt
    from sc3.synth import ugen as ugn
    return dict(sbi=sbi, aob=aob, fn=fn, stm=stm, opd=opd, ptt=ptt, lsp=lsp, evt=evt, ugn=ugn)


def method_table():
    """(name, number of operands incl. self, defaults) for every operator method of the real AbstractObject"""
    M = _mods()
    out = []
    for name, f in vars(M['aob'].AbstractObject).items():
        if name in SKIP or not inspect.isfunction(f):
            continue
        ps = list(inspect.signature(f).parameters.values())[1:]
        ps = [p for p in ps if p.name != 'clip']          # string mode arguments keep their defaults
        req = sum(1 for p in ps if p.default is inspect.Parameter.empty)
        out.append((name, 1 + len(ps), 1 + req))
    return out


def builtin_table():
    """every scbuiltin (function form) with its arity"""
    M = _mods()
    sbi = M['sbi']
    out = []
    for name, f in vars(sbi).items():
        if not inspect.isfunction(f) or not f.__qualname__.startswith('scbuiltin.'):
            continue
        kind = f.__qualname__.split('.')[1]
        inner = inspect.unwrap(f)
        # the wrapped kernel is the closure variable 'func'
        kern = f.__closure__ and [c.cell_contents for c in f.__closure__ if inspect.isfunction(c.cell_contents)]
        kern = kern[0] if kern else None
        if kern is None:
            continue
        ps = [p for p in inspect.signature(kern).parameters.values() if p.name != 'clip']
        req = sum(1 for p in ps if p.default is inspect.Parameter.empty)
        out.append((name, kind, len(ps), req))
    return out


# ------------------------------------------------------------ operand construction / evaluation

def make(kind, vals, M):
    """vals: list of leaf values (len>=1)"""
    if kind == 'number':
        return vals[0]
    if kind == 'func':
        v = vals[0]
        return M['fn'].function(lambda: v)
    if kind == 'stream':
        v = vals[0]
        # the value depends on the input value handed to next(): every operand stream must receive it
        return M['stm'].FunctionStream(lambda inval: v + inval)
    if kind == 'pattern':
        return M['lsp'].Pseq(list(vals))
    if kind == 'chanlist':
        return M['ugn'].ChannelList(list(vals))
    if kind == 'operand':
        return M['opd'].Operand(vals[0])
    if kind == 'rest':
        return M['evt'].Rest(vals[0])
    raise KeyError(kind)


def _canon(x):
    if isinstance(x, (SymReal, SymInt, SymBool)):
        return 'sym:' + str(x.e)
    if isinstance(x, (list, tuple)):
        return [_canon(y) for y in x]
    return repr(x)


def ev(obj, M, depth=0):
    if depth > 6:
        raise Inconclusive('evaluation does not bottom out')
    if isinstance(obj, (SymReal, SymInt, SymBool)) or isinstance(obj, (int, float, bool)) or obj is None:
        return obj
    if isinstance(obj, M['opd'].Operand):
        return ('operand', type(obj).__name__, ev(obj.value, M, depth + 1))
    if isinstance(obj, M['ptt'].Pattern):
        def vals_of(p):
            out = []
            s = p.__stream__()
            try:
                for _ in range(8):
                    out.append(ev(s.next(), M, depth + 1))
            except M['stm'].StopStream:
                pass
            return out
        out = vals_of(obj)
        if depth == 0:
            # the same composed pattern embedded in another pattern must give the same sequence; when it does not,
            # the embedded sequence is the one compared with the reference
            emb = vals_of(M['lsp'].Pseq([obj], 1))
            if _canon(emb) != _canon(out):
                return ('seq', emb)
        return ('seq', out)
    if isinstance(obj, M['stm'].Stream):
        return ev(obj.next(INVAL), M, depth + 1)
    if isinstance(obj, (list, tuple)):
        return ('list', type(obj).__name__, [ev(x, M, depth + 1) for x in obj])
    if callable(obj):
        return ev(obj(), M, depth + 1)
    return obj


def kinds_leaves(kind, vals):
    """evaluated structure of an operand built by make()"""
    if kind == 'stream':
        return vals[0] + INVAL
    if kind in ('number', 'func'):
        return vals[0]
    if kind == 'pattern':
        return ('seq', list(vals))
    if kind == 'chanlist':
        return ('list', 'ChannelList', list(vals))
    if kind == 'operand':
        return ('operand', 'Operand', vals[0])
    if kind == 'rest':
        return ('operand', 'Rest', vals[0])


def lift(op, structs):
    """reference semantics: apply op to the evaluated operand structures"""
    tags = [s[0] if isinstance(s, tuple) else None for s in structs]
    if 'seq' in tags:        # patterns / streams: element-wise, ends with the shortest; plain values repeat
        n = min(len(s[1]) for s in structs if isinstance(s, tuple) and s[0] == 'seq')
        return ('seq', [lift(op, [s[1][i] if isinstance(s, tuple) and s[0] == 'seq' else s for s in structs])
                        for i in range(n)])
    if 'list' in tags:
        if tags[0] != 'list':    # number op list -> list of the right operand's type
            pass
        n = max(len(s[2]) for s in structs if isinstance(s, tuple) and s[0] == 'list')
        tname = next(s[1] for s in structs if isinstance(s, tuple) and s[0] == 'list')
        return ('list', tname, [lift(op, [s[2][i % len(s[2])] if isinstance(s, tuple) and s[0] == 'list' else s
                                          for s in structs]) for i in range(n)])
    if 'operand' in tags:
        tname = next(s[1] for s in structs if isinstance(s, tuple) and s[0] == 'operand')
        return ('operand', tname, lift(op, [s[2] if isinstance(s, tuple) and s[0] == 'operand' else s
                                            for s in structs]))
    return op(*structs)


class Unmodelled(Exception):
    pass


class Raised:
    def __init__(self, e):
        self.e = e

    def __repr__(self):
        return f'Raised({type(self.e).__name__})'


def attempt(f):
    try:
        return f()
    except Inconclusive as e:
        if 'C-level' in str(e):
            raise Unmodelled(str(e))
        raise
    except (PathAbort, Violation):
        raise
    except RecursionError:
        raise Inconclusive('recursion')
    except Exception as e:
        return Raised(e)




def _unwrap(x):
    # Operand/Rest results: only the value matters (Operand.__eq__ etc. deliberately return plain values)
    while isinstance(x, tuple) and x[0] == 'operand':
        x = x[2]
    return x


def same(ctx, a, b, path, what, data):
    a, b = _unwrap(a), _unwrap(b)
    if isinstance(a, Raised) or isinstance(b, Raised):
        if isinstance(a, Raised) and isinstance(b, Raised) and type(a.e) is type(b.e):
            ctx.obligations += 1
            ctx.discharged += 1
            return
        raise Violation(f'{what}: {a!r} vs reference {b!r} at {path}', None, data)
    if isinstance(a, tuple) and isinstance(b, tuple):
        if a[0] != b[0] or (a[0] != 'seq' and a[1] != b[1]):
            raise Violation(f'{what}: result kind {a[:2]} vs reference {b[:2]} at {path}', None, data)
        xa, xb = a[-1], b[-1]
        if a[0] == 'operand':
            return same(ctx, xa, xb, path + '.value', what, data)
        if len(xa) != len(xb):
            raise Violation(f'{what}: length {len(xa)} vs reference {len(xb)} at {path}', None, data)
        for i, (p, q) in enumerate(zip(xa, xb)):
            same(ctx, p, q, f'{path}[{i}]', what, data)
        return
    if isinstance(a, tuple) or isinstance(b, tuple):
        raise Violation(f'{what}: structure mismatch {a!r} vs {b!r} at {path}', None, data)
    for v in (a, b):
        if isinstance(v, float) and not isinstance(v, SymReal) and v != v:
            raise Unmodelled('nan')
    if isinstance(a, SymBool) or isinstance(b, SymBool):
        ctx.prove(symx._b(a) == symx._b(b), f'{what} at {path}', data)
        return
    if symx.is_sym(a) or symx.is_sym(b):
        try:
            ta, tb = symx._t(a), symx._t(b)
        except TypeError:
            raise Violation(f'{what}: {a!r} vs reference {b!r} at {path}', None, data)
        if ta is None or tb is None:
            ctx.prove(ta is None and tb is None and a == b, f'{what} at {path}', data)
            return
        ta, tb = symx._coerce(ta, tb)
        ctx.prove(ta == tb, f'{what} at {path}', data)
        return
    ctx.prove(bool(a == b) or (a is b), f'{what}: {a!r} vs reference {b!r} at {path}', data)


# ------------------------------------------------------------ one job = one operator

def numeric_op(name, n, M, form='method'):
    sbi = M['sbi']
    if name in DUNDER:
        f, ar, refl = DUNDER[name]
        if isinstance(f, str):
            f = getattr(sbi, f[3:])
        if refl:
            return lambda a, b: f(b, a)
        return f
    if name in ALIAS:
        return ALIAS[name]
    if name in AMBIGUOUS and form == 'method':
        return AMBIGUOUS[name]
    return getattr(sbi, name)


def leaf(ctx, name, concrete, typ, i):
    if concrete:
        vals = {'real': [7.25, 2.0, -3.5, 0.75, 5.5, 1.25], 'int': [12, 5, -7, 3, 9, 2]}[typ]
        return vals[i % len(vals)]
    return ctx.real(name) if typ == 'real' else ctx.int(name)


def run_case(ctx, M, spec, concrete):
    """spec: dict(form='method'|'builtin'|'rbuiltin', name, n, kinds=[...], typ)"""
    sbi = M['sbi']
    name, n, kinds, typ = spec['name'], spec['n'], spec['kinds'], spec['typ']
    global INVAL
    INVAL = 2 if typ == 'int' else 0.25
    lens = [ctx.choose(f'len{i}', 3) + 1 if k in ('pattern', 'chanlist') else 1 for i, k in enumerate(kinds)]
    leaves = [[leaf(ctx, f'v{i}_{j}', concrete, typ, i * 3 + j) for j in range(lens[i])] for i in range(n)]
    structs = [kinds_leaves(k, lv) for k, lv in zip(kinds, leaves)]
    data = {'key': f'lift:{spec["form"]}:{name}:{"+".join(kinds)}',
            'replay': {'mode': 'nrt', 'kind': 'lift', 'spec': spec, 'lens': lens,
                       'names': [f'v{i}_{j}' for i in range(n) for j in range(lens[i])]}}
    op = None if spec['form'] == 'pyop' else numeric_op(name, n, M, spec['form'])
    with symx.shims():
        objs = [make(k, lv, M) for k, lv in zip(kinds, leaves)]
        if spec['form'] == 'method':
            got = attempt(lambda: ev(getattr(objs[0], name)(*objs[1:]), M))
        elif spec['form'] == 'pyop':
            got = attempt(lambda: ev(op_py(name)(*objs), M))
        else:
            got = attempt(lambda: ev(getattr(sbi, name)(*objs), M))
        if spec['form'] == 'pyop':
            ref = attempt(lambda: lift(op_py(name), structs))
        else:
            ref = attempt(lambda: lift(op, structs))
    same(ctx, got, ref, 'result', f'{spec["form"]} {name} over {kinds}', data)
    return {'spec': spec, 'lens': lens}


def _round1(a):
    """the one-argument builtin round(): on a composed object it goes through __round__ (default quantum), on a plain
    number the reference is rounding to the quantum 1"""
    if isinstance(a, (int, float, SymReal, SymInt)):
        from sc3.base import builtins as sbi_
        return sbi_.round(a, 1)
    return round(a)


def op_py(name):
    if name == 'round1':
        return _round1
    return {'add': operator.add, 'sub': operator.sub, 'mul': operator.mul, 'truediv': operator.truediv,
            'floordiv': operator.floordiv, 'pow': operator.pow, 'lt': operator.lt, 'le': operator.le,
            'gt': operator.gt, 'ge': operator.ge, 'neg': operator.neg, 'abs': operator.abs}[name]


def job(j):
    M = _mods()
    spec = j
    conc = spec['name'] in CONCRETE_ONLY

    def run(concrete):
        st = explore(lambda ctx: run_case(ctx, M, spec, concrete), max_paths=3000,
                     timeout_ms=20000 if concrete else 2500, stop_on_violation=True)
        return st
    try:
        st = run(conc)
        if conc:
            st.notes['concrete-leaves'] = st.notes.get('concrete-leaves', 0) + 1
        elif st.inconclusive:
            raise Unmodelled('solver: ' + st.inconclusive[0])
    except Unmodelled as e:
        st = run(True)
        st.notes['concrete-leaves'] = st.notes.get('concrete-leaves', 0) + 1
        st.notes['concrete-leaves:' + spec['name']] = 1
    d = st.as_dict()
    for v in d['violations']:
        rec = v['data']['replay']
        rec['values'] = {n: v['model'].get(n) for n in rec['names'] if n in v['model']}
        rec['what'] = v['what']
    # an operator whose kernel cannot take this operand type raises on both sides: fine, but report
    return d


def jobs(tier):
    out = []
    typs = ['real', 'int'] if tier == 'thorough' else ['real']
    kinds = KINDS
    for name, nmax, nreq in method_table():
        if name in RANDOM:
            continue
        for typ in (typs if name not in ('__lshift__', '__rlshift__', '__rshift__', '__rrshift__', '__and__',
                                         '__rand__', '__or__', '__ror__', '__xor__', '__rxor__', 'bitand', 'bitor',
                                         'bitxor', 'lshift', 'rshift', 'urshift', 'gcd', 'lcm', '__invert__',
                                         'bitnot') else ['int']):
            n = nmax if name not in ('__round__',) else 2
            for k in kinds:
                if n == 1:
                    out.append(dict(form='method', name=name, n=1, kinds=[k], typ=typ))
                else:
                    others = ['number'] * (n - 1)
                    out.append(dict(form='method', name=name, n=n, kinds=[k] + others, typ=typ))
                    if n == 2 and (tier == 'thorough' or k in ('func', 'pattern', 'chanlist')):
                        out.append(dict(form='method', name=name, n=2, kinds=[k, k], typ=typ))
                    if n >= 3 and k in ('pattern', 'func', 'stream'):
                        # n-ary operators with every operand of the kind (each operand advances per element)
                        out.append(dict(form='method', name=name, n=n, kinds=[k] * 3 + ['number'] * (n - 3), typ=typ))
    for name, kind, npar, nreq in builtin_table():
        if name in RANDOM:
            continue
        typ = 'real'
        if name in ('gcd', 'lcm', 'urshift', 'graycode', 'bitnot', 'even', 'odd'):
            typ = 'int'
        for k in kinds:
            out.append(dict(form='builtin', name=name, n=npar, kinds=[k] + ['number'] * (npar - 1), typ=typ))
            if kind == 'binop':
                out.append(dict(form='builtin', name=name, n=2, kinds=['number', k], typ=typ))
            if npar >= 3 and k == 'pattern':
                out.append(dict(form='builtin', name=name, n=npar, kinds=[k] * 3 + ['number'] * (npar - 3), typ=typ))
    for k in kinds:
        out.append(dict(form='pyop', name='round1', n=1, kinds=[k], typ='real'))
    # python operators with a plain number on the left (reflected dunders through the interpreter)
    for name in ('add', 'sub', 'mul', 'truediv', 'floordiv', 'pow', 'lt', 'le', 'gt', 'ge'):
        for k in kinds:
            out.append(dict(form='pyop', name=name, n=2, kinds=['number', k], typ='real'))
            out.append(dict(form='pyop', name=name, n=2, kinds=[k, 'number'], typ='real'))
    return out


def functions():
    from ..run import src_hash
    M = _mods()
    return src_hash([M['aob'].AbstractObject, M['aob'].AbstractSequence, M['sbi'].scbuiltin, M['fn'].UnopFunction,
                     M['fn'].BinopFunction, M['fn'].NaropFunction, M['stm'].UnopStream, M['stm'].BinopStream,
                     M['stm'].NaropStream, M['ptt'].Punop, M['ptt'].Pbinop, M['ptt'].Pnarop, M['opd'].Operand])


def bounds(tier):
    return {'operand_kinds': KINDS + ['number'], 'list_and_pattern_lengths': '1..3 (symbolic choice)',
            'leaf_types': ['real', 'int'] if tier == 'thorough' else ['real (int for bit operators)'],
            'operators': 'every operator method of AbstractObject and every scbuiltin except random ones',
            'concrete_leaves_for': sorted(CONCRETE_ONLY),
            'mixed_kinds': 'K op number, number op K, K op K (same kind), n-ary operators with the first three operands patterns / functions / streams; other mixtures outside'}


def replay(rec):
    M = _mods()
    spec, lens = rec['spec'], rec['lens']
    sbi = M['sbi']
    name, n, kinds, typ = spec['name'], spec['n'], spec['kinds'], spec['typ']
    vals = rec.get('values', {})
    leaves = []
    for i in range(n):
        row = []
        for j in range(lens[i]):
            v = vals.get(f'v{i}_{j}')
            if v is None:
                v = leaf(None, '', True, typ, i * 3 + j)
            row.append(float(v) if typ == 'real' else int(v))
        leaves.append(row)
    structs = [kinds_leaves(k, lv) for k, lv in zip(kinds, leaves)]
    objs = [make(k, lv, M) for k, lv in zip(kinds, leaves)]
    op = op_py(name) if spec['form'] == 'pyop' else numeric_op(name, n, M, spec['form'])

    def a(f):
        try:
            return f()
        except Exception as e:
            return Raised(e)
    if spec['form'] == 'method':
        got = a(lambda: ev(getattr(objs[0], name)(*objs[1:]), M))
    elif spec['form'] == 'pyop':
        got = a(lambda: ev(op(*objs), M))
    else:
        got = a(lambda: ev(getattr(sbi, name)(*objs), M))
    ref = a(lambda: lift(op, structs))

    def eq(x, y):
        x, y = _unwrap(x), _unwrap(y)
        if isinstance(x, Raised) or isinstance(y, Raised):
            return isinstance(x, Raised) and isinstance(y, Raised) and type(x.e) is type(y.e)
        if isinstance(x, tuple) and isinstance(y, tuple):
            if x[0] != y[0] or (x[0] != 'seq' and x[1] != y[1]):
                return False
            if x[0] == 'operand':
                return eq(x[2], y[2])
            return len(x[-1]) == len(y[-1]) and all(eq(p, q) for p, q in zip(x[-1], y[-1]))
        if isinstance(x, tuple) or isinstance(y, tuple):
            return False
        if isinstance(x, float) and isinstance(y, float) and x != x and y != y:
            return True
        try:
            return x == y or abs(x - y) <= 1e-9 * (1 + abs(x) + abs(y))
        except TypeError:
            return x == y
    if eq(got, ref):
        return None
    return f'{spec["form"]} {name} over {kinds} with leaves {leaves}: composed object evaluates to {got!r}, ' \
           f'numeric operator on evaluated operands gives {ref!r}'
