"""C06 -- OSC encoding round-trips, conforms to OSC 1.0 and is sized correctly.

(A) CrossHair (symbolic str / bytes / int) on the real codecs, the real message / bundle builders and the real size
    predictors, against the independent OSC 1.0 reader vf/oscref.py: vf/xh/c06_atoms.py, vf/xh/c06_msgs.py.
    "Confirmed over all paths" within the stated length bounds is a pass; a counterexample is replayed by calling
    the condition concretely; "Not confirmed" is inconclusive.
(B) symx on the real NetAddr._clump_bundle loop with symbolic element sizes and a symbolic limit: every emitted
    clump's REAL size 16 + sum(4 + s_i) stays within the limit whenever each single element fits, elements are
    carried exactly once and in order; counterexamples are replayed with real messages of those sizes.
(C) SynthDef._do_send: /d_recv is chosen iff the real datagram fits (boundary sweep around the UDP limit, sizes
    forked by the decision tree).
"""
import ast
import importlib
import itertools
import z3
from .. import symx, oscref, xhair
from ..symx import explore, Violation, PathAbort, SymReal, SymInt, Inconclusive
from ..run import Check, run_jobs, src_hash

PID = 'C06'

# conditions CrossHair can decide ("Confirmed over all paths" required)
XH_DECIDE = ['vf.xh.c06_atoms.blob_roundtrip', 'vf.xh.c06_atoms.blob_size_pred', 'vf.xh.c06_atoms.int_roundtrip']
# symbolic str conditions: CrossHair refutes quickly but cannot confirm them (utf-8 decode of symbolic bytes is
# realised); they are run as bug hunting only -- a counterexample is a violation, "Not confirmed" is recorded, not failed
XH_HUNT = ['vf.xh.c06_atoms.string_roundtrip', 'vf.xh.c06_atoms.strpad_covers_utf8', 'vf.xh.c06_msgs.msg_scalars',
           'vf.xh.c06_msgs.msg_blob_and_strings', 'vf.xh.c06_msgs.msg_nested', 'vf.xh.c06_msgs.bundle_sizes',
           'vf.xh.c06_msgs.msg_blob_int', 'vf.xh.c06_msgs.bundle_blob_int']


# ------------------------------------------------------------------ (B) clumping

def clump_scenario(ctx, k, site):
    """k elements with symbolic sizes; site: 'default' (send_clumped_bundles, 8192), 'sync' (65504 - 36), 'sym'"""
    from sc3.base import netaddr as nad
    sizes = [ctx.int(f's{i}', 2, 20000) for i in range(k)]          # in 4-byte words
    sz = [x * 4 for x in sizes]
    rec = {'mode': 'nrt', 'kind': 'clump', 'k': k, 'site': site, 'names': [f's{i}' for i in range(k)] + ['limit']}

    def data(sub):
        return {'key': f'c06:clump:{sub}', 'replay': dict(rec, sub=sub)}
    addr = nad.NetAddr('127.0.0.1', 57110)
    elements = [[f'/e{i}', i] for i in range(k)]
    by_id = {id(e): s for e, s in zip(elements, sz)}
    saved = nad.NetAddr._calc_msg_dgram_size
    nad.NetAddr._calc_msg_dgram_size = lambda self, e: by_id[id(e)]
    try:
        with symx.shims():
            if site == 'default':
                limit = 8192
                clumps = addr._clump_bundle(elements)
            elif site == 'sync':
                limit = addr._MAX_UDP_DGRAM_SIZE - addr._SYNC_BNDL_DGRAM_SIZE
                clumps = addr._clump_bundle(elements, limit)
            else:
                lim = ctx.int('limit', 16, 20000)
                limit = lim * 4
                clumps = addr._clump_bundle(elements, limit)
    finally:
        nad.NetAddr._calc_msg_dgram_size = saved
    flat = [e for c in clumps for e in c]
    if [id(e) for e in flat] != [id(e) for e in elements]:
        raise Violation('clumps do not carry every element exactly once and in order', None, data('order'))
    fits_alone = z3.And(*[symx._t(16 + 4 + s) <= symx._t(limit) for s in sz])
    for ci, c in enumerate(clumps):
        real = 16
        for e in c:
            real = real + 4 + by_id[id(e)]
        ctx.prove(z3.Implies(fits_alone, symx._t(real) <= symx._t(limit)),
                  f'clump {ci} of {len(clumps)} exceeds the size limit although every element fits on its own',
                  data('size'))
    ctx.note('clump:' + site)
    return {'k': k, 'site': site, 'clumps': [len(c) for c in clumps]}


def sync_scenario(ctx, k):
    """NetAddr.sync(elements): the real generator with symbolic element sizes -- every datagram it sends (elements plus
    the appended /sync message) stays within the UDP limit whenever each element fits next to a /sync on its own, and
    the elements go out once and in order"""
    from sc3.base import netaddr as nad, stream as stm, main as _m
    main = _m.main
    sizes = [ctx.int(f's{i}', 2, 20000) for i in range(k)]
    sz = [x * 4 for x in sizes]
    rec = {'mode': 'nrt', 'kind': 'sync', 'k': k, 'names': [f's{i}' for i in range(k)]}

    def data(sub):
        return {'key': f'c06:sync:{sub}', 'replay': dict(rec, sub=sub)}
    addr = nad.NetAddr('127.0.0.1', 57110)
    elements = [[f'/e{i}', i] for i in range(k)]
    by_id = {id(e): s for e, s in zip(elements, sz)}
    SYNC = 16          # '/sync' + ',i' + int32
    saved = nad.NetAddr._calc_msg_dgram_size
    nad.NetAddr._calc_msg_dgram_size = lambda self, e: by_id.get(id(e), SYNC if e[0] == '/sync' else None)
    sent = []
    addr.send_bundle = lambda time, *els: sent.append([e for e in els])
    limit = addr._MAX_UDP_DGRAM_SIZE
    try:
        with symx.shims():
            def body():
                yield from addr.sync(None, None, elements)
            r = stm.Routine(body)
            for _ in range(4 * k + 4):
                try:
                    r.next()
                except stm.StopStream:
                    break
            else:
                raise Inconclusive('sync did not finish')
    finally:
        nad.NetAddr._calc_msg_dgram_size = saved
        main.reset()
    carried = [e for b in sent for e in b if e[0] != '/sync']
    if [id(e) for e in carried] != [id(e) for e in elements]:
        raise Violation('sync does not carry every element exactly once and in order', None, data('order'))
    fits_alone = z3.And(*[symx._t(16 + 4 + s + 4 + SYNC) <= limit for s in sz])
    for bi_, b in enumerate(sent):
        if sum(1 for e in b if e[0] == '/sync') != 1 or b[-1][0] != '/sync':
            raise Violation(f'datagram {bi_} of sync does not end with exactly one /sync message', None, data('sync-msg'))
        real = 16
        for e in b:
            real = real + 4 + (SYNC if e[0] == '/sync' else by_id[id(e)])
        ctx.prove(z3.Implies(fits_alone, symx._t(real) <= limit),
                  f'datagram {bi_} of {len(sent)} sent by sync exceeds the UDP limit although every element fits next to '
                  f'a /sync message on its own', data('size'))
    ctx.note('sync:%d' % len(sent))
    ctx.note('sync')
    return {'k': k, 'datagrams': [len(b) for b in sent]}


# ------------------------------------------------------------------ (C) /d_recv boundary

def dsend_scenario(ctx):
    from sc3.base import main as _m, netaddr as nad
    from sc3.synth import synthdef as sdf
    main = _m.main
    addr_cls = nad.NetAddr
    MAX = addr_cls._MAX_UDP_DGRAM_SIZE
    n = ctx.idx('n', MAX - 40, MAX + 4)
    nn = int(n)
    comp = [None, ['/n_free', 1000], [0.0, ['/n_free', 1000]]][ctx.choose('completion', 3)]
    rec = {'mode': 'nrt', 'kind': 'dsend', 'names': ['n', 'completion']}

    def data(sub):
        return {'key': f'c06:dsend:{sub}', 'replay': dict(rec, sub=sub)}
    sent = []

    class FakeAddr:
        is_local = False
        _MAX_UDP_DGRAM_SIZE = MAX

        def _calc_msg_dgram_size(self, msg):
            return addr_cls._calc_msg_dgram_size(addr_cls.__new__(addr_cls), msg)

        def _calc_bndl_dgram_size(self, els):
            return addr_cls._calc_bndl_dgram_size(addr_cls.__new__(addr_cls), els)

        def send_msg(self, *msg):
            sent.append(list(msg))

    class FakeServer:
        addr = FakeAddr()
    sd = sdf.SynthDef._dummy('x')
    # what the real as_bytes() hands out: the buffer view of the written stream (a memoryview, not bytes)
    import io as _io
    _st = _io.BytesIO()
    _st.write(b'\x01' * nn)
    sd._bytes = _st.getbuffer()
    try:
        sd._do_send(FakeServer(), comp)
    except Exception as e:
        raise Violation(f'_do_send raised {type(e).__name__}: {e}', None, data('raises'))
    msg = ['/d_recv', b'\x01' * nn, comp]
    try:
        real = len(main._osc_interface._build_msg(0.0, list(msg)).dgram)
    except Exception as e:
        raise Violation(f'/d_recv message cannot be encoded: {type(e).__name__}: {e}', None, data('encode'))
    if sent:
        if real > MAX:
            raise Violation(f'/d_recv chosen for a datagram of {real} bytes (limit {MAX})', None, data('too-big'))
        ctx.note('d_recv')
    else:
        if real <= MAX - 64:
            raise Violation(f'a datagram of {real} bytes was not sent although the limit is {MAX}', None, data('refused'))
        ctx.note('d_load')
    ctx.obligations += 1
    ctx.discharged += 1
    return {'n': nn, 'real': real, 'sent': bool(sent)}


def _reproduces(r):
    """concrete re-evaluation of a CrossHair counterexample in a fresh process"""
    import subprocess, sys, json, os, tempfile
    rec = {'property': PID, 'mode': 'nrt', 'kind': 'xhair', 'target': r['target'], 'call': r.get('call'), 'key': 'probe'}
    fd, path = tempfile.mkstemp(suffix='.json', dir=os.path.join(os.path.dirname(os.path.dirname(os.path.dirname(os.path.abspath(__file__)))), 'work'))
    os.write(fd, json.dumps(rec).encode())
    os.close(fd)
    try:
        p = subprocess.run([sys.executable, '-m', 'vf.cli', 'replay', path], capture_output=True, text=True, timeout=120,
                           cwd=os.path.dirname(os.path.dirname(os.path.dirname(os.path.abspath(__file__)))))
        return p.returncode == 1 and 'REPRODUCED' in p.stdout
    finally:
        os.unlink(path)


def job(j):
    if j['kind'] == 'clump':
        h = lambda c: clump_scenario(c, j['k'], j['site'])     # noqa
    elif j['kind'] == 'sync':
        h = lambda c: sync_scenario(c, j['k'])                 # noqa
    else:
        h = dsend_scenario
    st = explore(h, max_paths=50000, timeout_ms=20000, stop_on_violation=True)
    d = st.as_dict()
    for v in d['violations']:
        rec = v['data']['replay']
        rec['values'] = dict(v['model'])
        rec['what'] = v['what']
    return d


# ------------------------------------------------------------------ replay

def _replay_sync(rec, vals):
    """real messages of the model's sizes through the real NetAddr.sync in an NRT routine; real encoded sizes"""
    from sc3.base import netaddr as nad, stream as stm, main as _m
    main = _m.main
    k = rec['k']
    addr = nad.NetAddr('127.0.0.1', 57110)
    els = []
    for i in range(k):
        s = int(vals.get(f's{i}', 3)) * 4
        pay = s - 4 - 4 - 4
        if pay < 4:
            els.append(['/e%d' % i, i] if s >= 12 else ['/e%d' % i])
        else:
            els.append(['/e%d' % i, b'\x01' * pay])
    sent = []
    addr.send_bundle = lambda time, *e: sent.append(list(e))
    main.reset()
    try:
        def body():
            yield from addr.sync(None, None, els)
        r = stm.Routine(body)
        for _ in range(4 * k + 4):
            try:
                r.next()
            except stm.StopStream:
                break
    finally:
        main.reset()
    osci = main._osc_interface
    limit = addr._MAX_UDP_DGRAM_SIZE
    carried = [e for b in sent for e in b if e[0] != '/sync']
    if [id(e) for e in carried] != [id(e) for e in els]:
        return 'sync does not carry every element exactly once and in order'
    alone = all(len(osci._build_bundle(0.0, [None, e, ['/sync', 1]]).dgram) <= limit for e in els)
    for b in sent:
        n = len(osci._build_bundle(0.0, [None] + b).dgram)
        if alone and n > limit:
            return f'sync(elements of sizes {[len(osci._build_msg(0.0, e).dgram) for e in els]}) sends a datagram of ' \
                   f'{n} bytes (limit {limit})'
    return None


def replay(rec):
    kind = rec['kind']
    if kind == 'rope':
        from . import c06_ropes
        return c06_ropes.replay_rope(rec)
    if kind == 'xhair':
        mod, fn = rec['target'].rsplit('.', 1)
        m = importlib.import_module(mod)
        call = rec['call']
        try:
            tree = ast.parse(call, mode='eval')
            args = [ast.literal_eval(a) for a in tree.body.args]
        except Exception as e:
            return None
        try:
            ok = getattr(m, fn)(*args)
        except Exception as e:
            return f'{call} raises {type(e).__name__}: {e}'
        return None if ok else f'{call} is False: {(getattr(m, fn).__doc__ or "").strip().splitlines()[0]}'
    vals = rec.get('values', {})
    if kind == 'sync':
        return _replay_sync(rec, vals)
    if kind == 'clump':
        from sc3.base import netaddr as nad, main as _m
        k, site = rec['k'], rec['site']
        addr = nad.NetAddr('127.0.0.1', 57110)
        limit = {'default': 8192, 'sync': addr._MAX_UDP_DGRAM_SIZE - addr._SYNC_BNDL_DGRAM_SIZE}.get(site)
        if limit is None:
            limit = int(vals.get('limit', 64)) * 4
        els = []
        for i in range(k):
            s = int(vals.get(f's{i}', 3)) * 4
            # a real message of exactly s bytes: address '/eN' (4) + type tags + one blob argument
            pay = s - 4 - 4 - 4
            if pay < 4:
                els.append(['/e%d' % i, i] if s >= 12 else ['/e%d' % i])
            else:
                els.append(['/e%d' % i, b'\x01' * pay])
        clumps = addr._clump_bundle(els) if site == 'default' else addr._clump_bundle(els, limit)
        flat = [e for c in clumps for e in c]
        if [id(e) for e in flat] != [id(e) for e in els]:
            return 'clumps do not carry the elements once and in order'
        osci = _m.main._osc_interface
        single = all(len(osci._build_bundle(0.0, [None, e]).dgram) <= limit for e in els)
        for c in clumps:
            if not c:
                continue
            n = len(osci._build_bundle(0.0, [None] + c).dgram)
            if single and n > limit:
                return f'_clump_bundle(sizes {[len(osci._build_msg(0.0, e).dgram) for e in els]}, {limit}) yields a ' \
                       f'datagram of {n} bytes'
        return None
    if kind == 'dsend':
        class C:
            def idx(self, *a):
                return int(vals.get('n', 65500))

            def choose(self, name, n):
                return int(vals.get(name, 0))

            def note(self, s):
                pass
            obligations = discharged = 0
        try:
            dsend_scenario(C())
        except Violation as v:
            return v.what
        return None
    return None


# ------------------------------------------------------------------ main

def main(tier, seed):
    from sc3.base import _osclib as oli, netaddr as nad, _oscinterface as osci
    from sc3.synth import synthdef as sdf
    chk = Check(PID, 'other', tier, seed)
    chk.functions = src_hash([oli.write_string, oli.get_string, oli.write_blob, oli.get_blob, oli.write_int, oli.get_int,
                              oli.OscMessageBuilder, oli.OscBundleBuilder, oli.OscMessage, oli.OscBundle,
                              osci.OscInterface._build_msg, osci.OscInterface._build_bundle,
                              nad.NetAddr._calc_msg_dgram_size, nad.NetAddr._calc_bndl_dgram_size,
                              nad.NetAddr._clump_bundle, nad.NetAddr.send_clumped_bundles, nad.NetAddr.sync,
                              sdf.SynthDef._do_send])
    # (A) CrossHair
    tmo = 90 if tier == 'quick' else 400
    hunt_tmo = 25 if tier == 'quick' else 120
    res = xhair.run_many(XH_DECIDE, per_condition_timeout=tmo, workers=5)
    hres = xhair.run_many(XH_HUNT, per_condition_timeout=hunt_tmo, workers=6)
    part = chk.parts.setdefault('crosshair', dict(jobs=0, paths=0, aborted=0, queries=0, solver_s=0.0, obligations=0,
                                                  discharged=0, nontrivial=0, notes={}, wall=0.0))
    hunt_report = []
    for r in res + hres:
        hunting = r['target'] in XH_HUNT
        part['jobs'] += 1
        part['wall'] += r['wall']
        part['solver_s'] += r['wall']
        part['paths'] += 1
        name = r['target'].split('.')[-1]
        if not hunting:
            part['obligations'] += 1
        if r['status'] == 'confirmed':
            if hunting:
                part['obligations'] += 1
            part['discharged'] += 1
            part['nontrivial'] += 1
            part['notes'][name + ':confirmed'] = 1
            chk.samples.append({'crosshair': r['target'], 'verdict': 'Confirmed over all paths',
                                'seconds': round(r['wall'], 1)})
        elif r['status'] == 'refuted' and hunting and not _reproduces(r):
            hunt_report.append({'condition': r['target'], 'verdict': 'CrossHair counterexample %s does not reproduce '
                                'concretely (modelling artefact of symbolic str/bytes); ignored' % r.get('call')})
            part['notes'][name + ':hunted'] = 1
        elif r['status'] == 'refuted':
            chk.violations.append({'what': r['detail'], 'model': {}, 'part': 'crosshair', 'job': r['target'],
                                   'data': {'key': 'c06:xhair:' + name,
                                            'replay': {'mode': 'nrt', 'kind': 'xhair', 'target': r['target'],
                                                       'call': r.get('call'), 'what': r['detail']}}})
        elif hunting:
            hunt_report.append({'condition': r['target'], 'verdict': 'no counterexample within %ds (bug hunting only, '
                                'not a proof)' % hunt_tmo})
            part['notes'][name + ':hunted'] = 1
        else:
            chk.inconclusive.append(f'crosshair {r["target"]}: {r["detail"]}')
    chk.extra['hunt'] = hunt_report
    # (B) + (C) symx
    jobs = [dict(kind='clump', k=k, site=s) for s in ('default', 'sync', 'sym')
            for k in ((1, 2, 3) if tier == 'quick' else (1, 2, 3, 4, 5))]
    jobs += [dict(kind='dsend')]
    jobs += [dict(kind='sync', k=k) for k in ((1, 2, 3) if tier == 'quick' else (1, 2, 3, 4))]
    for r in run_jobs('vf.props.c06', 'job', jobs, 'nrt'):
        chk.add('framing', r)
    chk.require_notes('framing', ['clump:default', 'clump:sync', 'clump:sym', 'd_recv', 'd_load', 'sync', 'sync:1', 'sync:2'])
    # (D) symbolic-content ropes: message and bundle framing, decoding, size prediction, NUL refusal
    from . import c06_ropes
    templates = c06_ropes.TEMPLATES_QUICK if tier == 'quick' else c06_ropes.TEMPLATES_THOROUGH
    rjobs = []
    for t in templates:
        nstr = sum(t.count(c) for c in 'sbM')
        N = (4 if nstr <= 2 else 3) if tier == 'quick' else (9 if nstr <= 1 else 7 if nstr == 2 else 4)
        for b in (False, True):
            rjobs.append(dict(template=t, N=N, bundle=b))
    for r in run_jobs('vf.props.c06_ropes', 'job_rope', rjobs, 'nrt'):
        chk.add('ropes', r)
    chk.require_notes('ropes', ['rope:' + t + (':bundle' if b else '') for t in templates for b in (False, True)] +
                      ['accepted', 'refused-nul'])
    chk.bounds = {'crosshair': 'str arguments of <= 3 characters (any code point), bytes of <= 5-6, any int; argument '
                               'templates: scalars+coercions, blob+strings, nested message/bundle/array markers, bundle '
                               'with nested bundle; floats from a fixed edge list (struct is C code)',
                  'clumping': '<= 3 (quick) / 5 elements, sizes 8..80000 bytes symbolic, limit 8192 / 65468 / symbolic',
                  'd_recv': 'definition sizes limit-40 .. limit+4, three completion-message shapes',
                  'ropes': 'argument templates ' + ', '.join(templates) + ' (s string, b blob, i int32, f float, T/F/N/E '
                           'coercions, M nested message, B nested bundle, [ ] array markers) as a message and as the first '
                           'element of a bundle; every string / blob length 0..N (N = 3..4 quick, 4..9 thorough, forked), '
                           'EVERY byte value symbolic (0..255), ints over int32, floats symbolic reals; address "/" + 0..4 '
                           'symbolic bytes',
                  'outside': 'strings / blobs longer than the stated N; utf-8 well-formedness of string bytes (cells are '
                             'opaque byte values, the character count is a separate symbolic n with n <= bytes <= 4n); a '
                             'one-byte string equal to "[" or "]" (array marker by convention); float32 rounding; timetag '
                             'content (C07); TCP framing'}
    chk.assumptions = ['vf/oscref.py is the OSC 1.0 reference reader', 'ropes: str / bytes are replaced by the cell-list proxies of vf/ropes.py (str / bytes / struct class shims inside _osclib, _oscinterface, netaddr); the expected layout walk in vf/props/c06_ropes.py is written from the OSC 1.0 text', 'CrossHair 0.0.110: "Confirmed over all paths" '
                       'is taken as the solver verdict within the preconditions',
                       'clumping: element sizes come from a stub of _calc_msg_dgram_size (its agreement with the real '
                       'size is part (A)); models are replayed with real messages of those sizes']
    return chk.finish(coverage_extra={'crosshair_bug_hunting_only': hunt_report},
                      explanation='CrossHair verdicts on the real codecs/builders/sizers + SMT validity on the clump '
                                  'loop with symbolic sizes; symbolic-str conditions are bug hunting only')
