"""C02 -- emitted definitions are well-formed, topologically ordered SCgf v2; the library's own reader agrees.

Families of graph functions (finite control explored completely, constants / channel counts / unit counts / name
lengths symbolic) are built by the real SynthDef; per path the independent reader (vf/scgf.py) must consume the
bytes exactly, every input must refer to a constant or to an output of a strictly earlier unit, width-first units
must precede every unit created after them (creation order observed by a harness-side wrapper of _add_ugen),
counts/rates/outputs must be consistent, SynthDesc.new_from and SynthDesc._read_stream must recover name, control
names in slot order, defaults, rates, gate flag and I/O units equal to the source's, and invalid graphs must raise.
"""
import io
import itertools
import z3
from .. import symx, scgf, sdsym
from ..symx import explore, Violation, PathAbort, SymReal, SymInt, Inconclusive
from ..run import Check, run_jobs, src_hash
from . import c01

PID = 'C02'
WIDTH_FIRST = ('LocalBuf', 'SetBuf', 'ClearBuf', 'FFT', 'IFFT', 'PV_MagAbove', 'PV_MagSmear', 'RandSeed', 'RandID',
               'FFTTrigger', 'PV_MagBelow')


def U():
    from sc3.synth.ugens import oscillators as ocl, inout as iou, noise as nse, fft, bufio, pan, trig, line
    from sc3.synth import synthdef as sdf, synthdesc as sdc, ugen as ugn
    return dict(ocl=ocl, iou=iou, nse=nse, fft=fft, bufio=bufio, pan=pan, trig=trig, line=line, sdf=sdf, sdc=sdc,
                ugn=ugn)


class Recorder:
    """harness-side wrapper of SynthDef._add_ugen: creation order of units (nothing in /repo is changed)"""

    def __init__(self, sdf):
        self.sdf = sdf
        self.order = []

    def __enter__(self):
        self.orig = self.sdf.SynthDef._add_ugen
        rec = self

        def _add_ugen(sd, ugen):
            if not sd._rewrite_in_progress:
                rec.order.append(ugen)
            return rec.orig(sd, ugen)
        self.sdf.SynthDef._add_ugen = _add_ugen
        return self

    def __exit__(self, *a):
        self.sdf.SynthDef._add_ugen = self.orig
        return False


def build(name, fn, **kw):
    m = U()
    with Recorder(m['sdf']) as rec:
        sd, b = sdsym.build_bytes(name, fn, **kw)
    return sd, b, rec.order


def structural(ctx, sd, b, order, data, expect_name=None):
    try:
        defs = scgf.parse(b)
    except scgf.FormatError as e:
        raise Violation(f'emitted bytes are not one SCgf-2 file: {e}', None, data('format'))
    if len(defs) != 1:
        raise Violation(f'{len(defs)} definitions in the bytes', None, data('format'))
    d = defs[0]
    probs = scgf.validate(d)
    if probs:
        raise Violation('malformed definition: ' + '; '.join(probs[:3]), None, data('structure'))
    if expect_name is not None and d['name'] != expect_name:
        raise Violation(f'definition name {d["name"]!r} != {expect_name!r}', None, data('name'))
    # width-first units precede every unit created after them
    ch = list(sd._children)
    if [type(u).__name__ for u in ch] != [u['cls'] for u in d['ugens']]:
        raise Violation('written unit sequence differs from the builder\'s final child list', None, data('children'))
    pos = {id(u): i for i, u in enumerate(ch)}
    for t, w in enumerate(order):
        if type(w).__name__ in WIDTH_FIRST and id(w) in pos:
            for later in order[t + 1:]:
                if id(later) in pos and pos[id(later)] < pos[id(w)]:
                    raise Violation(f'{type(later).__name__} (created after {type(w).__name__}) is written at '
                                    f'position {pos[id(later)]} before it ({pos[id(w)]})', None, data('width-first'))
    # every output unit the graph function created is in the definition (outputs are never dead code)
    for w in order:
        if type(w).__name__ in OUT_CLASSES and id(w) not in pos:
            raise Violation(f'the {type(w).__name__} unit the graph function created is missing from the emitted '
                            f'definition (units written: {[u["cls"] for u in d["ugens"]]})', None, data('lost-output'))
    ctx.obligations += 1
    ctx.discharged += 1
    return d


OUT_CLASSES = ('Out', 'ReplaceOut', 'OffsetOut', 'LocalOut', 'XOut')


def desc_agree(ctx, sd, b, d, data, controls=None, gate=None):
    """the library's description reader accepts the bytes and recovers what the independent reader sees / the source
    says.  controls: list of (name, [default terms], rate) in slot order."""
    m = U()
    try:
        d1 = m['sdc'].SynthDesc.new_from(sd)
        d2 = m['sdc'].SynthDesc._read_stream(io.BytesIO(b))
    except (PathAbort, Inconclusive, Violation):
        raise
    except Exception as e:
        raise Violation(f'library description reader rejects the emitted bytes: {type(e).__name__}: {e}', None,
                        data('desc-reject'))
    if len(d2) != 1:
        raise Violation('_read_stream returned %d descriptions' % len(d2), None, data('desc'))
    for desc in (d1, d2[0]):
        if desc.name != d['name']:
            raise Violation(f'reader name {desc.name!r} != {d["name"]!r}', None, data('desc-name'))
        if list(desc.control_names) != [n for n, _ in d['pnames']]:
            raise Violation(f'reader control names {desc.control_names} != {[n for n, _ in d["pnames"]]}', None,
                            data('desc-names'))
        if [c.default_value if not isinstance(c.default_value, list) else c.default_value[0]
                for c in desc.controls] != list(d['params']) and \
                [x for c in desc.controls if c.name != '?' for x in
                 (c.default_value if isinstance(c.default_value, list) else [c.default_value])] != list(d['params']):
            raise Violation('reader control defaults differ from the parameter slots', None, data('desc-defaults'))
        nin = sum(1 for u in d['ugens'] if u['cls'] in ('In', 'LocalIn', 'LagIn', 'InFeedback', 'InTrig'))
        nout = sum(1 for u in d['ugens'] if u['cls'] in ('Out', 'ReplaceOut', 'OffsetOut', 'LocalOut', 'XOut'))
        if len(desc.inputs) != nin or len(desc.outputs) != nout:
            raise Violation(f'reader I/O units {len(desc.inputs)}/{len(desc.outputs)} != {nin}/{nout}', None,
                            data('desc-io'))
        outs = [u for u in d['ugens'] if u['cls'] in ('Out', 'ReplaceOut', 'OffsetOut', 'LocalOut', 'XOut')]
        for io_, u in zip(desc.outputs, outs):
            fixed = 1 if u['cls'] != 'XOut' else 2
            if u['cls'] == 'LocalOut':
                fixed = 0
            if io_.channels != len(u['ins']) - fixed or io_.rate != scgf.RATE_NAME[u['rate']]:
                raise Violation(f'reader output unit {io_} vs decoded {u}', None, data('desc-io'))
            _bus_name(d, u, io_, data)
        ins_ = [u for u in d['ugens'] if u['cls'] in ('In', 'LocalIn', 'LagIn', 'InFeedback', 'InTrig')]
        for io_, u in zip(desc.inputs, ins_):
            if u['cls'] != 'LocalIn':
                _bus_name(d, u, io_, data)
        if controls is not None:
            if [n for n, _ in d['pnames']] != [c[0] for c in controls]:
                raise Violation(f'control names {[n for n, _ in d["pnames"]]} != source parameters '
                                f'{[c[0] for c in controls]}', None, data('desc-names'))
            for (nm, defaults, rate) in controls:
                cn = desc.control_dict.get(nm)
                if cn is None:
                    raise Violation(f'reader lost control {nm!r}', None, data('desc-names'))
                got = cn.default_value if isinstance(cn.default_value, list) else [cn.default_value]
                if len(got) != len(defaults):
                    raise Violation(f'control {nm!r}: reader recovers {len(got)} default value(s), the source has '
                                    f'{len(defaults)}', None, data('desc-defaults'))
                for g, w in zip(got, defaults):
                    ctx.prove(sdsym.cterm(g) == symx._real(symx._t(w)), f'control {nm!r}: recovered default differs '
                              'from the source default', data('desc-defaults'))
                if cn.rate != rate:
                    raise Violation(f'control {nm!r}: reader rate {cn.rate!r} != {rate!r}', None, data('desc-rate'))
        if gate is not None and bool(desc.has_gate) != gate:
            raise Violation(f'reader gate flag {desc.has_gate} != {gate}', None, data('desc-gate'))
    ctx.obligations += 1
    ctx.discharged += 1


def _bus_name(d, u, io_, data):
    """a bus argument fed by a named control is reported by that control's name"""
    if not u['ins']:
        return
    su, so = u['ins'][0]
    if su < 0:
        return
    src = d['ugens'][su]
    if src['cls'] not in ('Control', 'TrigControl', 'AudioControl', 'LagControl'):
        return
    slot = src['spec'] + so
    names = {idx: nm for nm, idx in d['pnames']}
    want = names.get(slot)
    if want is not None and io_.starting_channel != want:
        raise Violation(f'reader reports the bus of {u["cls"]} as {io_.starting_channel!r}; it is fed by control '
                        f'slot {slot}, which the name table calls {want!r}', None, data('desc-bus'))


def fam_operators(ctx, names):
    """every server operator unit and every output class is written so that the library's own description reader
    accepts it and reports the units' channels"""
    from . import c01
    m = U()
    c1 = ctx.real('c1', 1, 10)
    k = ctx.choose('op', len(names))
    kind, name = names[k]
    rec = {'mode': 'nrt', 'names': ['c1'], 'sel': {'op': k}, 'opnames': [list(x) for x in names]}
    data = _data('operators', rec)

    def g():
        n, iou = m['nse'], m['iou']
        a, b_ = n.LFNoise0.ar(c1), n.LFNoise0.ar(c1 + 1)
        if kind == 'unary':
            iou.Out.ar(0, c01.UN_SRC[name](a))
        elif kind == 'binary':
            iou.Out.ar(0, c01.BIN_SRC[name](a, b_))
        elif name == 'XOut':
            iou.XOut.ar(0, 0.5, [a, b_])
        elif name == 'LocalOut':
            iou.LocalOut.ar([a, b_])
            iou.Out.ar(0, iou.LocalIn.ar(2))
        elif name == 'ReplaceOut':
            iou.ReplaceOut.ar(0, [a, b_, a * 0.5])
        else:
            iou.OffsetOut.ar(0, [a])
    try:
        sd, b, order = build('op', g)
    except (PathAbort, Inconclusive, Violation):
        raise
    except Exception as e:
        raise Violation(f'valid graph with {kind} {name} does not compile: {type(e).__name__}: {e}', None, data('compile'))
    d = structural(ctx, sd, b, order, data, 'op')
    desc_agree(ctx, sd, b, d, data)
    ctx.note('operators')
    return {'fam': 'operators', 'op': name}


def fam_iobus(ctx):
    """bus arguments given by controls of different rate groups (so that they live in different control units)"""
    m = U()
    fr, ob, ib = ctx.real('fr'), ctx.real('ob', 0, 8), ctx.real('ib', 0, 8)
    rk = ctx.choose('rates', 4)
    rates = [['ir', None, None], [None, 'ir', None], ['tr', None, 'ir'], [None, None, None]][rk]
    rec = {'mode': 'nrt', 'names': ['fr', 'ob', 'ib'], 'sel': {'rates': rk}}
    data = _data('iobus', rec)

    def g(freq=fr, out=ob, inbus=ib):
        n, iou = m['nse'], m['iou']
        iou.Out.ar(out, iou.In.ar(inbus, 1) + n.LFNoise0.ar(freq))
    try:
        sd, b, order = build('io', g, rates=rates)
    except (PathAbort, Inconclusive, Violation):
        raise
    except Exception as e:
        raise Violation(f'valid graph does not compile: {type(e).__name__}: {e}', None, data('compile'))
    d = structural(ctx, sd, b, order, data, 'io')
    desc_agree(ctx, sd, b, d, data)
    ctx.note('iobus')
    return {'fam': 'iobus', 'rates': rates}


SHARED = ['square', 'two-channels', 'muladd-twice', 'pan', 'sum4-square', 'neg-twice']


def fam_shared(ctx):
    """an operator the optimiser rewrites (fused sum, MulAdd, negation folded into a subtraction) that ONE consumer reads
    on two of its inputs"""
    m = U()
    c1, c2 = ctx.real('c1'), ctx.real('c2')
    k = ctx.choose('shape', len(SHARED))
    rec = {'mode': 'nrt', 'names': ['c1', 'c2'], 'sel': {'shape': k}}
    data = _data('shared', rec)
    if isinstance(c1, SymReal):
        sdsym.avoid(ctx, [c1, c2], [201, 202, 203, 0, 1, -1])
    shape = SHARED[k]

    def g():
        n, o, iou, pan = m['nse'], m['ocl'], m['iou'], m['pan']
        a, b, c = n.LFNoise0.ar(201), n.LFNoise0.ar(202), n.LFNoise0.ar(203)
        if shape == 'square':
            s = a + b + c
            iou.Out.ar(0, s * s)
        elif shape == 'two-channels':
            s = a + b + c
            iou.Out.ar(0, [s, s])
        elif shape == 'muladd-twice':
            mm = a * c1 + c2
            iou.Out.ar(0, o.SinOsc.ar(mm, mm))
        elif shape == 'pan':
            s = a + b + c
            iou.Out.ar(0, pan.Pan2.ar(s, s))
        elif shape == 'sum4-square':
            s = a + b + c + n.LFNoise0.ar(204)
            iou.Out.ar(0, s * s)
        else:
            s = a - (-b)
            iou.Out.ar(0, [s, s * s])
    try:
        sd, b_, order = build('shared', g)
    except (PathAbort, Inconclusive, Violation):
        raise
    except Exception as e:
        raise Violation(f'valid graph does not compile: {type(e).__name__}: {e}', None, data('compile'))
    d = structural(ctx, sd, b_, order, data, 'shared')
    desc_agree(ctx, sd, b_, d, data)
    ctx.note('shared')
    return {'fam': 'shared', 'shape': shape}


def _data(fam, rec):
    def data(sub):
        return {'key': f'c02:{fam}:{sub}', 'replay': dict(rec, sub=sub, fam=fam)}
    return data


# ------------------------------------------------------------------ families

def fam_wide(ctx, v):
    """width-first units (local buffer, FFT chain, random seeding) after an optimiser rewrite"""
    m = U()
    c1, c2, c3 = ctx.real('c1'), ctx.real('c2'), ctx.real('c3')
    rec = {'mode': 'nrt', 'v': v, 'names': ['c1', 'c2', 'c3']}
    data = _data('wide', rec)
    if isinstance(c1, SymReal):
        sdsym.avoid(ctx, [c1, c2, c3], [201, 202, 203, 2048, 1024, 42, 43])

    def g():
        n, o, f, bf, iou, tr = m['nse'], m['ocl'], m['fft'], m['bufio'], m['iou'], m['trig']
        if v['seed_first']:
            n.RandSeed.kr(1, 42)
        if v['src_first']:
            src = n.LFNoise0.ar(201) * c1 + c2
        early = n.LFNoise0.kr(202)
        buf = bf.LocalBuf.new(2048)
        if not v['src_first']:
            src = n.LFNoise0.ar(201) * c1 + c2
        if v['seed_mid']:
            n.RandSeed.kr(1, 43)
            late = n.TRand.kr(0, c3, o.Impulse.kr(1))
        else:
            late = early
        chain = f.FFT(buf, src)
        if v['pv']:
            chain = f.PV_MagAbove.new(chain, c3)
        sig = f.IFFT.ar(chain)
        iou.Out.ar(0, sig * late if v['use_late'] else sig)
        if v['two_bufs']:
            b2 = bf.LocalBuf.new(1024)
            iou.Out.ar(1, f.IFFT.ar(f.FFT(b2, n.LFNoise0.ar(203) + early)))
    try:
        sd, b, order = build('wide', g)
    except (PathAbort, Inconclusive, Violation):
        raise
    except Exception as e:
        raise Violation(f'valid graph does not compile: {type(e).__name__}: {e}', None, data('compile'))
    d = structural(ctx, sd, b, order, data, 'wide')
    desc_agree(ctx, sd, b, d, data)
    ctx.note('wide')
    return {'fam': 'wide', 'v': v, 'units': [u['cls'] for u in d['ugens']]}


def fam_multi(ctx, v):
    """multi-output units, nested multichannel expansion, symbolic channel counts"""
    m = U()
    c1, c2 = ctx.real('c1'), ctx.real('c2')
    nch = ctx.idx('nch', 1, 4)
    rec = {'mode': 'nrt', 'v': v, 'names': ['c1', 'c2', 'nch']}
    data = _data('multi', rec)
    if isinstance(c1, SymReal):
        sdsym.avoid(ctx, [c1, c2], [303, 304, 305, 3])

    def g():
        n, o, iou, pan, ln = m['nse'], m['ocl'], m['iou'], m['pan'], m['line']
        sig = n.LFNoise0.ar([c1, [c2, 303]] if v['nested'] else [c1, c2])
        inn = iou.In.ar(3, int(nch))
        if v['pan']:
            p = pan.Pan2.ar(n.LFNoise0.ar(304), c1)
            iou.Out.ar(0, p)
        iou.Out.ar(2, sig)
        iou.Out.ar(4, inn * c2 if v['scale_in'] else inn)
        if v['zero']:
            iou.Out.ar(6, [0.0, n.LFNoise0.ar(305), 0])
    try:
        sd, b, order = build('multi', g)
    except (PathAbort, Inconclusive, Violation):
        raise
    except Exception as e:
        raise Violation(f'valid graph does not compile: {type(e).__name__}: {e}', None, data('compile'))
    d = structural(ctx, sd, b, order, data, 'multi')
    desc_agree(ctx, sd, b, d, data)
    inu = [u for u in d['ugens'] if u['cls'] == 'In']
    if len(inu) != 1:
        raise Violation('In unit count', None, data('in'))
    ctx.prove(symx._t(nch) == len(inu[0]['outs']), 'In unit does not have the requested number of outputs', data('in'))
    ctx.note('multi')
    return {'fam': 'multi', 'v': v, 'units': [u['cls'] for u in d['ugens']]}


def fam_many(ctx, kmax, kmin=1):
    """hundreds of units and constants: a sum over k noise generators with k symbolic"""
    m = U()
    k = ctx.idx('k', kmin, kmax)
    c1 = ctx.real('c1')
    rec = {'mode': 'nrt', 'kmax': kmax, 'kmin': kmin, 'names': ['k', 'c1']}
    data = _data('many', rec)
    if isinstance(c1, SymReal):
        ctx.assume(c1.e < 100)      # below the tag constants 400+i
    kk = int(k)

    def g():
        n, iou = m['nse'], m['iou']
        sig = 0
        for i in range(kk):
            sig = sig + n.LFNoise0.ar(400 + i) * (c1 if i == 1 else 0.5 + i)
        iou.Out.ar(0, sig)
    try:
        sd, b, order = build('many', g)
    except (PathAbort, Inconclusive, Violation):
        raise
    except Exception as e:
        raise Violation(f'valid graph with {kk} generators does not compile: {type(e).__name__}: {e}', None,
                        data('compile'))
    d = structural(ctx, sd, b, order, data, 'many')
    got = sorted(d['consts'][u['ins'][0][1]] for u in d['ugens'] if u['cls'] == 'LFNoise0')
    if got != [400.0 + i for i in range(kk)]:
        raise Violation(f'{len(got)} of {kk} generators in the definition', None, data('many-units'))
    desc_agree(ctx, sd, b, d, data)
    ctx.note('many')
    return {'fam': 'many', 'k': kk, 'units': len(d['ugens'])}


def fam_name(ctx, lo=0, hi=257):
    m = U()
    n = ctx.idx('n', lo, hi)
    nn = int(n)
    rec = {'mode': 'nrt', 'names': ['n'], 'lo': lo, 'hi': hi}
    data = _data('name', rec)
    name = ('abcdefghij' * 26)[:nn]

    def g():
        m['iou'].Out.ar(0, m['nse'].LFNoise0.ar(500))
    try:
        sd, b, order = build(name, g)
    except (PathAbort, Inconclusive, Violation):
        raise
    except Exception as e:
        if nn <= 255 and nn >= 1:
            raise Violation(f'definition name of {nn} ASCII characters refused: {type(e).__name__}: {e}', None,
                            data('name-refused'))
        ctx.obligations += 1
        ctx.discharged += 1
        ctx.note('name-rejected')
        return {'fam': 'name', 'n': nn, 'rejected': True}
    if nn > 255:
        raise Violation(f'definition name of {nn} characters accepted (pascal string holds 255)', None,
                        data('name-long'))
    d = structural(ctx, sd, b, order, data, name)
    if nn >= 1:
        desc_agree(ctx, sd, b, d, data)
    ctx.note('name')
    return {'fam': 'name', 'n': nn}


def fam_controls(ctx, v):
    """parameters of several rates and sizes + gate: what the readers must recover"""
    m = U()
    f1, f2, f3, amp, g8 = ctx.real('f1'), ctx.real('f2'), ctx.real('f3'), ctx.real('amp'), ctx.real('gate')
    rec = {'mode': 'nrt', 'v': v, 'names': ['f1', 'f2', 'f3', 'amp', 'gate']}
    data = _data('controls', rec)
    sizes = v['sizes']
    fd = (f1, f2, f3)[:sizes[0]] if sizes[0] > 1 else f1
    ad = (amp, f2)[:sizes[1]] if sizes[1] > 1 else amp

    def g_gate(freqs=fd, amp=ad, gate=g8):
        n, iou = m['nse'], m['iou']
        iou.Out.ar(0, n.LFNoise0.ar(freqs) * amp * gate)

    def g_nogate(freqs=fd, amp=ad):
        n, iou = m['nse'], m['iou']
        iou.Out.ar(0, n.LFNoise0.ar(freqs) * amp)
    fn = g_gate if v['gate'] else g_nogate
    kw = {}
    if v['rates']:
        kw['rates'] = v['rates']
    try:
        sd, b, order = build('ctl', fn, **kw)
    except (PathAbort, Inconclusive, Violation):
        raise
    except Exception as e:
        raise Violation(f'valid graph does not compile: {type(e).__name__}: {e}', None, data('compile'))
    d = structural(ctx, sd, b, order, data, 'ctl')
    rates = list(v['rates'] or [])
    rate_of = lambda i: {'ir': 'scalar', 'tr': 'control', 'ar': 'audio', 'kr': 'control', None: 'control'}[  # noqa
        rates[i] if i < len(rates) and isinstance(rates[i], str) else None]
    src = [('freqs', list(fd) if isinstance(fd, tuple) else [fd], rate_of(0)),
           ('amp', list(ad) if isinstance(ad, tuple) else [ad], rate_of(1))]
    if v['gate']:
        src.append(('gate', [g8], rate_of(2)))
    # slot order: by rate group ir, tr, ar, kr then declaration order
    grp = lambda i: {'ir': 0, 'tr': 1, 'ar': 2}.get(rates[i] if i < len(rates) and isinstance(rates[i], str)  # noqa
                                                       else None, 3)
    order_idx = sorted(range(len(src)), key=lambda i: (grp(i), i))
    # the name table is written in declaration order
    desc_agree(ctx, sd, b, d, data, controls=src, gate=bool(v['gate']))
    ctx.note('controls')
    return {'fam': 'controls', 'v': v}


NAN_UNITS = [('Pan2', 1), ('LinPan2', 1), ('Balance2', 2), ('Rotate2', 2), ('XFade2', 2), ('LinXFade2', 2), ('PanB2', 1)]


def fam_invalid(ctx, kind):
    m = U()
    c1 = ctx.real('c1')
    rec = {'mode': 'nrt', 'kind': kind, 'names': ['c1']}
    data = _data('invalid', rec)

    def g():
        n, o, iou = m['nse'], m['ocl'], m['iou']
        if kind == 'rate':
            iou.Out.ar(0, n.LFNoise0.kr(c1))
        elif kind == 'rate-mixed':
            iou.Out.ar(0, [n.LFNoise0.ar(c1), n.LFNoise0.kr(601)])
        elif kind == 'nan':
            iou.Out.ar(0, n.LFNoise0.ar(float('nan')))
        elif kind == 'nan-arith':
            iou.Out.ar(0, n.LFNoise0.ar(c1) * float('nan'))
        elif kind == 'str':
            iou.Out.ar(0, o.SinOsc.ar('freq'))
        elif kind == 'none':
            iou.Out.ar(0, o.SinOsc.ar(None))
        elif kind == 'empty':
            iou.Out.ar(0, o.SinOsc.ar([]))
        elif kind == 'no-input':
            iou.Out.kr(0, [])
        elif kind == 'filter-rate':
            from sc3.synth.ugens import filter as flt
            iou.Out.ar(0, flt.LPF.ar(n.LFNoise0.kr(c1), 500))
        elif kind == 'nan-unit':
            # units with their own input validators (panners, cross-faders): a NaN in a numeric argument is refused at
            # audio AND control rate; the twin with an ordinary number must build (sel['nan'] False)
            from sc3.synth.ugens import pan
            name, nsig = NAN_UNITS[sel['unit']]
            rate = ('ar', 'kr')[sel['rate']]
            sigs = [getattr(n.LFNoise0, rate)(300 + k) for k in range(nsig)]
            r = getattr(getattr(pan, name), rate)(*sigs, float('nan') if sel['nan'] else c1)
            getattr(iou.Out, rate)(0, r)
    sel = {}
    if kind == 'nan-unit':
        sel = {'unit': ctx.choose('unit', len(NAN_UNITS)), 'rate': ctx.choose('rate', 2), 'nan': ctx.choose('nan', 2)}
        rec['sel'] = dict(sel)
        if not sel['nan']:
            try:
                build('good', g)
            except (PathAbort, Inconclusive, Violation):
                raise
            except Exception as e:
                raise Violation(f'{NAN_UNITS[sel["unit"]][0]}.{("ar", "kr")[sel["rate"]]} with ordinary arguments does '
                                f'not build: {type(e).__name__}: {e}', None, data('valid-rejected'))
            ctx.obligations += 1
            ctx.discharged += 1
            ctx.note('accepted:nan-unit-twin')
            return {'fam': 'invalid', 'kind': kind, 'twin': True}
    try:
        sd, b, order = build('bad', g)
    except (PathAbort, Inconclusive, Violation):
        raise
    except Exception:
        ctx.obligations += 1
        ctx.discharged += 1
        ctx.note('rejected:' + kind)
        return {'fam': 'invalid', 'kind': kind, 'rejected': True}
    # it produced bytes: they must at least be well formed and readable, else it had to be rejected
    try:
        d = structural(ctx, sd, b, order, data, 'bad')
        desc_agree(ctx, sd, b, d, data)
    except Violation as e:
        raise Violation(f'invalid graph ({kind}) was not rejected and produced a broken definition: {e.what}', None,
                        data('invalid-' + kind))
    raise Violation(f'invalid graph ({kind}) was not rejected', None, data('invalid-' + kind))


def fam_c01(ctx, prog):
    """arithmetic programs of C01: structural + reader agreement"""
    prog = dict(prog)
    prog['uses'] = set(prog['uses'])
    prog['nodes'] = [tuple(n) for n in prog['nodes']]
    res = c01.run_prog(ctx, prog)
    return res


def job(j):
    fam = j['fam']
    if fam == 'wide':
        h = lambda c: fam_wide(c, j['v'])          # noqa
    elif fam == 'multi':
        h = lambda c: fam_multi(c, j['v'])         # noqa
    elif fam == 'many':
        h = lambda c: fam_many(c, j['kmax'], j.get('kmin', 1))       # noqa
    elif fam == 'name':
        h = lambda c: fam_name(c, j.get('lo', 0), j.get('hi', 257))  # noqa
    elif fam == 'controls':
        h = lambda c: fam_controls(c, j['v'])      # noqa
    elif fam == 'iobus':
        h = fam_iobus
    elif fam == 'shared':
        h = fam_shared
    elif fam == 'operators':
        h = lambda c: fam_operators(c, j['names'])     # noqa
    elif fam == 'invalid':
        h = lambda c: fam_invalid(c, j['kind'])    # noqa
    st = explore(h, max_paths=5000, timeout_ms=20000, stop_on_violation=True)
    d = st.as_dict()
    for v in d['violations']:
        rec = v['data']['replay']
        rec['values'] = {n: v['model'].get(n) for n in rec.get('names', [])}
        rec['what'] = v['what']
    return d


# ------------------------------------------------------------------ replay: same families, concrete values

class _CCtx:
    """concrete stand-in for Ctx: values from the model, obligations evaluated directly"""

    def __init__(self, vals):
        self.vals = vals
        self.obligations = self.discharged = 0
        self.fail = None

    def real(self, name, *a, **k):
        v = self.vals.get(name)
        return float(v) if v is not None else 0.5

    def idx(self, name, lo, hi):
        v = self.vals.get(name)
        return int(v) if v is not None else lo

    def choose(self, name, n):
        return int(self.vals.get(name, 0) or 0)

    def note(self, s):
        pass

    def prove(self, cond, what='', data=None):
        if isinstance(cond, bool):
            ok = cond
        else:
            ok = z3.is_true(z3.simplify(cond))
        if not ok:
            raise Violation(what, None, data)

    def valid(self, cond):
        return cond if isinstance(cond, bool) else z3.is_true(z3.simplify(cond))


def replay(rec):
    fam = rec['fam']
    ctx = _CCtx(dict(rec.get('values', {}), **rec.get('sel', {})))
    try:
        if fam == 'wide':
            fam_wide(ctx, rec['v'])
        elif fam == 'multi':
            fam_multi(ctx, rec['v'])
        elif fam == 'many':
            fam_many(ctx, rec['kmax'], rec.get('kmin', 1))
        elif fam == 'name':
            fam_name(ctx, rec.get('lo', 0), rec.get('hi', 257))
        elif fam == 'controls':
            fam_controls(ctx, rec['v'])
        elif fam == 'iobus':
            fam_iobus(ctx)
        elif fam == 'shared':
            fam_shared(ctx)
        elif fam == 'operators':
            fam_operators(ctx, [tuple(x) for x in rec['opnames']])
        elif fam == 'invalid':
            fam_invalid(ctx, rec['kind'])
    except Violation as v:
        return v.what
    return None


# ------------------------------------------------------------------ main

def main(tier, seed):
    m = U()
    chk = Check(PID, 'translation_validation', tier, seed)
    S, G = m['sdf'].SynthDef, m['ugn'].SynthObject
    chk.functions = src_hash([S._topological_sort, S._init_topo_sort, S._cleanup_topo_sort, S._index_ugens,
                              S._optimize_graph, S._check_inputs, S._write_def, S._write_constants, S._write_def_list,
                              S._add_ugen, S._replace_ugen, G._write_def, G._init_topo_sort, G._arrange,
                              G._check_valid_inputs, m['ugn'].WidthFirstUGen, m['sdc'].SynthDesc._read_synthdef2,
                              m['sdc'].SynthDesc._read_ugen_spec2, m['sdc'].SynthDesc.new_from,
                              m['iou'].AbstractOut._check_inputs])
    jobs = []
    bools = lambda *ks: [dict(zip(ks, vals)) for vals in itertools.product([0, 1], repeat=len(ks))]   # noqa
    wide = bools('seed_first', 'src_first', 'seed_mid', 'pv', 'use_late', 'two_bufs')
    if tier == 'quick':
        wide = [v for v in wide if v['pv'] == v['two_bufs']]
    jobs += [dict(fam='wide', v=v) for v in wide]
    jobs += [dict(fam='multi', v=v) for v in bools('nested', 'pan', 'scale_in', 'zero')]
    kmax = 40 if tier == 'quick' else 80
    step = 4 if tier == 'quick' else 10
    jobs += [dict(fam='many', kmin=a, kmax=min(kmax, a + step - 1)) for a in range(1, kmax + 1, step)]
    jobs += [dict(fam='name', lo=a, hi=min(257, a + 15)) for a in range(0, 258, 16)]
    jobs.sort(key=lambda j: -(j.get('kmax', 0)))
    rates_opts = [None, ['ir'], [None, 'ir'], ['ar', None, 'tr'], [0.5], ['kr', 'kr', 'kr']]
    for sizes in [(1, 1), (3, 1), (1, 2), (3, 2), (2, 1)]:
        for gate in (0, 1):
            for r in (rates_opts if tier == 'thorough' else rates_opts[:4]):
                jobs.append(dict(fam='controls', v=dict(sizes=list(sizes), gate=gate, rates=r)))
    # an array-valued parameter FOLLOWED by another one of the same non-default rate group
    for sizes in [(3, 1), (2, 2)]:
        for r in (['ir', 'ir'], ['tr', 'tr'], ['ar', 'ar'], ['ir', 'ir', 'ir']):
            jobs.append(dict(fam='controls', v=dict(sizes=list(sizes), gate=1 if len(r) == 3 else 0, rates=r)))
    kinds = ['rate', 'rate-mixed', 'nan', 'nan-arith', 'str', 'none', 'filter-rate', 'nan-unit']
    jobs += [dict(fam='invalid', kind=k) for k in kinds]
    jobs += [dict(fam='iobus'), dict(fam='shared')]
    from . import c01 as _c01
    opn = [('unary', n) for n in _c01.UN_SRC] + [('binary', n) for n in _c01.BIN_SRC] + \
        [('out', n) for n in ('XOut', 'LocalOut', 'ReplaceOut', 'OffsetOut')]
    for i in range(0, len(opn), 12):
        jobs.append(dict(fam='operators', names=opn[i:i + 12]))
    for r in run_jobs('vf.props.c02', 'job', jobs, 'nrt'):
        chk.add('families', r)
    chk.require_notes('families', ['wide', 'multi', 'many', 'name', 'name-rejected', 'controls', 'iobus', 'shared', 'operators'] +
                      ['rejected:' + k for k in kinds])
    chk.programs = sum(a.get('paths', 0) for a in chk.parts.values())
    chk.bounds = {'families': ['width-first x optimiser rewrite (%d variants)' % len(wide), 'multi-output/nested '
                               'expansion (16 variants, In channels 1..4)', 'sum over k generators, k <= %d' %
                               (40 if tier == 'quick' else 80), 'definition names of 0..257 characters',
                               'controls of sizes 1..3 x rates x gate', 'invalid graphs: ' + ', '.join(kinds)],
                  'outside': 'non-ASCII names; more than 80 units; demand-rate graphs; arithmetic programs are '
                             'validated structurally by C01 on every path'}
    chk.assumptions = ['creation order is observed by wrapping SynthDef._add_ugen from the harness',
                       'constants are exact reals; the readers see the f32 representatives of their classes']
    return chk.finish(explanation='structural validation + reader agreement per path of the symbolic build')
