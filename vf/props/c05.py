"""C05 -- logical time in routines is exact and independent of physical jitter.

RT: the real SystemClock / TempoClock run loops are co-simulated (vf/cosim.py) with ARBITRARY wake-up latency
(jitter): routines yield symbolic deltas and record clock.seconds / clock.beats at every resumption; obligation:
the k-th observation == start + sum of the deltas yielded so far (through the tempo), with no dependence on any
physical instant; a child routine started inside a routine (same clock or a TempoClock) first observes its
parent's current logical time.  NRT: the real ClockScheduler runs routines on SystemClock, AppClock and TempoClocks
(created at a non-zero time / with a beats offset): same closed form, executed instants never decrease, elapsed
time ends at the last scheduled instant.
"""
import itertools
import z3
from .. import symx, cosim
from ..symx import explore, Violation, PathAbort, SymReal, Inconclusive
from ..run import Check, run_jobs, src_hash

PID = 'C05'


def R(x):
    return symx._real(symx._t(x))


def mentions(term, names):
    """does the z3 term mention any of the named variables?"""
    seen = set()
    todo = [term]
    while todo:
        t = todo.pop()
        if t.get_id() in seen:
            continue
        seen.add(t.get_id())
        if z3.is_const(t) and t.decl().kind() == z3.Z3_OP_UNINTERPRETED and str(t) in names:
            return str(t)
        todo.extend(t.children())
    return None


# ------------------------------------------------------------------ RT

def rt_scenario(ctx, j):
    """j: clock 'sys'|'tempo', child 'none'|'same'|'tempo'|'sys', nyield 2|3, other: a second routine/task competes"""
    sim = cosim.Sim(ctx, jitter=True, max_events=j.get('max_events', 26))
    rec = {'mode': 'rt', 'job': dict(j)}

    def data(sub):
        return {'key': f'c05:rt:{sub}', 'replay': dict(rec, sub=sub)}
    with sim as s:
        from sc3.base import stream as stm
        w, clk, main = s.world, s.clk, s.m
        rec['trace'] = w.trace
        T = float(j.get('tempo', 2.0))
        main.main_tt._m_seconds = w.now
        tclock = clk.TempoClock(T) if (j['clock'] == 'tempo' or j['child'] == 'tempo') else None
        clock = tclock if j['clock'] == 'tempo' else clk.SystemClock
        n = j['nyield']
        d = [ctx.real(f'd{i}', 0, None) for i in range(n)]
        e = [ctx.real(f'e{i}', 0, None) for i in range(2)]
        e2 = ctx.real('e2', 0, None)        # delay of a child started through clock.sched(delay, routine)
        by_sched = j.get('start') == 'sched'
        obs, cobs, oobs = [], [], []
        start = {}
        child_clock = {'none': None, 'same': clock, 'tempo': tclock, 'sys': clk.SystemClock}[j['child']]

        def child_body():
            cobs.append((child_clock.seconds, w.now))
            yield e[0]
            cobs.append((child_clock.seconds, w.now))

        def body():
            for i in range(n):
                obs.append((clock.seconds, clock.beats, w.now))
                if i == 1 and child_clock is not None:
                    start['child_parent_time'] = clock.seconds
                    if by_sched:
                        child_clock.sched(e2, stm.Routine(child_body))
                    else:
                        stm.Routine(child_body).play(child_clock, 0)
                yield d[i]
            obs.append((clock.seconds, clock.beats, w.now))

        def other_body():
            oobs.append((clk.SystemClock.seconds, w.now))
            yield e[1]
            oobs.append((clk.SystemClock.seconds, w.now))
        r = stm.Routine(body)
        ro = stm.Routine(other_body)

        def play(world):
            start['t'] = world.now
            start['beats'] = clock.beats
            r.play(clock, 0)      # quant 0: TempoClock.play quantises to the next whole beat by default
        s.foreign('play', play)
        if j['other']:
            def play_other(world):
                start['other'] = world.now
                ro.play(clk.SystemClock)
            s.foreign('play other', play_other)
        try:
            s.run(clock)
            if tclock is not None and clock is not tclock:
                s.run(tclock)
            elif clock is tclock and (j['other'] or j['child'] == 'sys'):
                s.run(clk.SystemClock)
            if w.truncated:
                raise PathAbort('event budget')
            if 't' not in start:
                raise PathAbort('routine never played on this path')
            phys = {str(t.e) for t in w.instants} - {str(R(start['t']))}
            # closed form
            acc = R(start['t'])
            accb = R(start['beats'])
            for k, (sec, beats, ph) in enumerate(obs):
                if clock is clk.SystemClock:
                    ctx.prove(R(sec) == acc, f'logical time at resumption {k} is not start + sum of deltas',
                              data('closed-form'))
                else:
                    ctx.prove(R(beats) == accb, f'logical beats at resumption {k} is not start + sum of deltas',
                              data('closed-form'))
                    ctx.prove(R(sec) == R(start['t']) + (accb - R(start['beats'])) / z3.RealVal(repr(T)),
                              f'logical seconds at resumption {k} is not start + deltas / tempo', data('closed-form'))
                ctx.prove(R(ph) >= R(sec), f'resumption {k} happened before its logical time', data('early'))
                if k < n:
                    acc = acc + R(d[k])
                    accb = accb + R(d[k])
            if w.blocked and len(obs) != n + 1:
                raise Violation(f'routine observed {len(obs)} resumptions of {n + 1} and the clock blocks for ever',
                                None, data('lost'))
            if cobs:
                delay = (R(e2) / z3.RealVal(repr(T)) if child_clock is tclock else R(e2)) if by_sched else 0
                ctx.prove(R(cobs[0][0]) == R(start['child_parent_time']) + delay,
                          'child routine does not start at its parent\'s current logical time' +
                          (' + the sched delay' if by_sched else ''), data('child-start'))
                if len(cobs) > 1:
                    if child_clock is tclock:
                        ctx.prove(R(cobs[1][0]) == R(cobs[0][0]) + R(e[0]) / z3.RealVal(repr(T)),
                                  'child logical time after its first yield', data('child-step'))
                    else:
                        ctx.prove(R(cobs[1][0]) == R(cobs[0][0]) + R(e[0]), 'child logical time after its first yield',
                                  data('child-step'))
            if oobs:
                ctx.prove(R(oobs[0][0]) == R(start['other']), 'competing routine start time', data('other'))
                if len(oobs) > 1:
                    ctx.prove(R(oobs[1][0]) == R(start['other']) + R(e[1]), 'competing routine logical time',
                              data('other'))
            ctx.note('rt:' + j['clock'])
            if cobs:
                ctx.note('child:' + j['child'])
            if len(obs) == n + 1:
                ctx.note('complete')
        finally:
            if tclock is not None:
                try:
                    main._atexitq.remove(tclock._stop)
                except Exception:
                    pass
        return {'mode': 'rt', 'job': j, 'resumptions': len(obs), 'trace': [list(x) for x in w.trace][:10]}


# ------------------------------------------------------------------ NRT

def nrt_scenario(ctx, j):
    """j: inner 'tempo'|'app'|'sys', tempo, offset (beats given to the TempoClock constructor or None)"""
    from sc3.base import main as _m, clock as clk, stream as stm
    main = _m.main
    rec = {'mode': 'nrt', 'job': dict(j)}

    def data(sub):
        return {'key': f'c05:nrt:{j["inner"]}:{sub}', 'replay': dict(rec, sub=sub)}
    dA = [ctx.real(f'a{i}', 0, None) for i in range(3)]
    dB = [ctx.real(f'b{i}', 0, None) for i in range(2)]
    T = float(j.get('tempo', 2.0))
    b0 = ctx.real('beats0') if j.get('offset') else None
    ds = ctx.real('ds', 0, None)
    execd = []
    obsA, obsB = [], []
    info = {}
    with symx.shims():
        main.reset()
        try:
            def body_b():
                c = info['clock']
                for i in range(2):
                    obsB.append((c.seconds, c.beats))
                    execd.append(main.elapsed_time())
                    if i == 1 and j.get('tempo_change') in (1, 2) and j['inner'] == 'tempo':
                        # beats and seconds stay continuous; later deltas run at the new tempo
                        if j['tempo_change'] == 2:
                            c.etempo(T * 2)      # in NRT the elapsed time is the logical time: same closed form
                        else:
                            c.tempo = T * 2
                    yield dB[i]
                obsB.append((c.seconds, c.beats))
                execd.append(main.elapsed_time())

            def body_a():
                for i in range(3):
                    obsA.append(clk.SystemClock.seconds)
                    execd.append(main.elapsed_time())
                    if i == 1:
                        if j['inner'] == 'tempo':
                            c = clk.TempoClock(T, b0) if b0 is not None else clk.TempoClock(T)
                        elif j['inner'] == 'app':
                            c = clk.AppClock
                        else:
                            c = clk.SystemClock
                        info['clock'] = c
                        info['tA'] = clk.SystemClock.seconds
                        info['beats'] = c.beats
                        if j.get('start') == 'sched':
                            c.sched(ds, stm.Routine(body_b))
                        else:
                            stm.Routine(body_b).play(c, 0)
                    if i == 2 and j.get('tempo_change') == 3:
                        # ANOTHER routine changes the tempo while the inner routine is pending (or over): the inner
                        # routine still wakes at its beats
                        info['clock'].tempo = T * 2
                    yield dA[i]
                obsA.append(clk.SystemClock.seconds)
                execd.append(main.elapsed_time())
            t0 = ctx.real('t_start', 0, None)
            main.main_tt._m_seconds = t0
            stm.Routine(body_a).play(clk.SystemClock)
            main._clock_scheduler.run()
            end = main.elapsed_time()
        finally:
            main.reset()
    acc = R(t0)
    for k, s_ in enumerate(obsA):
        ctx.prove(R(s_) == acc, f'NRT: SystemClock routine logical time at resumption {k}', data('closed-form'))
        if k < 3:
            acc = acc + R(dA[k])
    if len(obsA) != 4 or len(obsB) != 3:
        raise Violation(f'NRT: routines resumed {len(obsA)}/{len(obsB)} times, expected 4/3', None, data('count'))
    tempo = z3.RealVal(repr(T)) if j['inner'] == 'tempo' else z3.RealVal(1)
    by_sched = j.get('start') == 'sched'
    tA = R(info['tA']) + (R(ds) / tempo if by_sched else 0)
    ctx.prove(R(obsB[0][0]) == tA, 'NRT: routine started inside a routine does not begin at its parent\'s logical '
              'time', data('child-start'))
    accb = R(info['beats']) + (R(ds) if by_sched else 0)
    accs = tA
    for k, (sec, beats) in enumerate(obsB):
        ctx.prove(R(beats) == accb, f'NRT: inner routine beats at resumption {k} is not start + sum of deltas',
                  data('closed-form-inner'))
        if j.get('tempo_change') != 3:
            ctx.prove(R(sec) == accs, f'NRT: inner routine seconds at resumption {k} is not start + deltas / tempo',
                      data('closed-form-inner'))
        if k < 2:
            accb = accb + R(dB[k])
            accs = accs + R(dB[k]) / (tempo * 2 if (k == 1 and j.get('tempo_change') and j['inner'] == 'tempo') else tempo)
    for k, (x, y) in enumerate(zip(execd, execd[1:])):
        ctx.prove(R(y) >= R(x), 'NRT: logical time decreases from one executed task to the next', data('monotone'))
    last = R(execd[0])
    for x in execd[1:]:
        last = z3.If(R(x) >= last, R(x), last)
    ctx.prove(R(end) == last, 'NRT: elapsed time does not end at the last scheduled instant', data('end'))
    ctx.note('nrt:' + j['inner'])
    return {'mode': 'nrt', 'job': j}


def job(j):
    h = (lambda c: rt_scenario(c, j)) if j['mode'] == 'rt' else (lambda c: nrt_scenario(c, j))
    st = explore(h, max_paths=60000, timeout_ms=20000, stop_on_violation=True)
    d = st.as_dict()
    for v in d['violations']:
        rec = v['data']['replay']
        rec['values'] = dict(v['model'])
        rec['what'] = v['what']
    return d


# ------------------------------------------------------------------ replay

def replay(rec):
    j = rec['job']
    vals = rec.get('values', {})
    g = lambda n, dflt: float(vals[n]) if vals.get(n) is not None else dflt      # noqa
    if j['mode'] == 'nrt':
        return _replay_nrt(j, g)
    return _replay_rt(rec, j, g)


def _replay_nrt(j, g):
    from sc3.base import main as _m, clock as clk, stream as stm
    main = _m.main
    dA = [g(f'a{i}', 0.5 + i) for i in range(3)]
    dB = [g(f'b{i}', 0.25 + i) for i in range(2)]
    T = float(j.get('tempo', 2.0))
    b0 = g('beats0', 8.0) if j.get('offset') else None
    t0 = g('t_start', 0.0)
    ds = g('ds', 0.75)
    obsA, obsB, execd, info = [], [], [], {}
    main.reset()

    def body_b():
        c = info['clock']
        for i in range(2):
            obsB.append((c.seconds, c.beats))
            execd.append(main.elapsed_time())
            if i == 1 and j.get('tempo_change') in (1, 2) and j['inner'] == 'tempo':
                if j['tempo_change'] == 2:
                    c.etempo(T * 2)
                else:
                    c.tempo = T * 2
            yield dB[i]
        obsB.append((c.seconds, c.beats))
        execd.append(main.elapsed_time())

    def body_a():
        for i in range(3):
            obsA.append(clk.SystemClock.seconds)
            execd.append(main.elapsed_time())
            if i == 1:
                c = (clk.TempoClock(T, b0) if b0 is not None else clk.TempoClock(T)) if j['inner'] == 'tempo' else \
                    (clk.AppClock if j['inner'] == 'app' else clk.SystemClock)
                info.update(clock=c, tA=clk.SystemClock.seconds, beats=c.beats)
                if j.get('start') == 'sched':
                    c.sched(ds, stm.Routine(body_b))
                else:
                    stm.Routine(body_b).play(c, 0)
            if i == 2 and j.get('tempo_change') == 3:
                info['clock'].tempo = T * 2
            yield dA[i]
        obsA.append(clk.SystemClock.seconds)
        execd.append(main.elapsed_time())
    main.main_tt._m_seconds = t0
    stm.Routine(body_a).play(clk.SystemClock)
    main._clock_scheduler.run()
    end = main.elapsed_time()
    main.reset()
    tol = lambda a, b: abs(a - b) <= 1e-6 * (1 + abs(a) + abs(b))     # noqa
    acc = t0
    for k, s_ in enumerate(obsA):
        if not tol(s_, acc):
            return f'NRT: outer routine resumption {k} at {s_}, expected {acc}'
        if k < 3:
            acc += dA[k]
    if len(obsA) != 4 or len(obsB) != 3:
        return f'NRT: routines resumed {len(obsA)}/{len(obsB)} times'
    tempo = T if j['inner'] == 'tempo' else 1.0
    by_sched = j.get('start') == 'sched'
    startB = info['tA'] + (ds / tempo if by_sched else 0.0)
    if not tol(obsB[0][0], startB):
        return f'NRT: routine started on {j["inner"]} clock from a routine at logical time {info["tA"]}' + \
               (f' with sched({ds})' if by_sched else '') + f' starts at {obsB[0][0]}, expected {startB}'
    accb, accs = info['beats'] + (ds if by_sched else 0.0), startB
    for k, (sec, beats) in enumerate(obsB):
        if not tol(beats, accb) or (j.get('tempo_change') != 3 and not tol(sec, accs)):
            return f'NRT: inner routine resumption {k} at {sec}s / beat {beats}, expected ' + \
                   (f'{accs}s / ' if j.get('tempo_change') != 3 else '') + f'beat {accb}'
        if k < 2:
            accb += dB[k]
            accs += dB[k] / (tempo * 2 if (k == 1 and j.get('tempo_change') and j['inner'] == 'tempo') else tempo)
    for x, y in zip(execd, execd[1:]):
        if y < x - 1e-9:
            return f'NRT: executed task times decrease: {execd}'
    if not tol(end, max(execd)):
        return f'NRT: elapsed time ends at {end}, last scheduled instant {max(execd)}'
    return None


def _replay_rt(rec, j, g):
    """real threads: a deliberately slow first task makes the clock thread late (jitter); logical times must still be
    start + sum of deltas"""
    import time
    from sc3.base import main as _m, clock as clk, stream as stm
    T = float(j.get('tempo', 2.0))
    n = j['nyield']
    raw = [g(f'd{i}', 0.3) for i in range(n)]
    m = max(raw + [1e-9])
    d = [0.05 + 0.25 * x / m for x in raw]
    tclock = clk.TempoClock(T) if (j['clock'] == 'tempo' or j['child'] == 'tempo') else None
    clock = tclock if j['clock'] == 'tempo' else clk.SystemClock
    child_clock = {'none': None, 'same': clock, 'tempo': tclock, 'sys': clk.SystemClock}[j['child']]
    obs, cobs, oobs, start = [], [], [], {}

    def child_body():
        cobs.append(child_clock.seconds)
        yield 0.05
        cobs.append(child_clock.seconds)

    def body():
        for i in range(n):
            obs.append((clock.seconds, clock.beats))
            if i == 1 and child_clock is not None:
                start['cp'] = clock.seconds
                stm.Routine(child_body).play(child_clock, 0)
            if i == 0:
                time.sleep(0.4)          # load: everything due meanwhile becomes one late batch
            yield d[i] * (T if clock is tclock else 1.0)
        obs.append((clock.seconds, clock.beats))

    def other_body():
        oobs.append(clk.SystemClock.seconds)
        yield 0.1
        oobs.append(clk.SystemClock.seconds)

    def starter():
        start['t'] = clock.seconds
        start['b'] = clock.beats
        stm.Routine(body).play(clock, 0)
        if j['other']:
            start['o'] = clk.SystemClock.seconds
            stm.Routine(other_body).play(clk.SystemClock)
    clk.SystemClock.sched(0.05, lambda: starter())
    time.sleep(1.6)
    if tclock is not None:
        tclock.stop()
    tol = lambda a, b: abs(a - b) <= 1e-6     # noqa
    if 't' not in start or len(obs) != n + 1:
        return f'routine observed {len(obs)} of {n + 1} resumptions within the horizon'
    acc = 0.0
    for k, (sec, beats) in enumerate(obs):
        if not tol(sec - start['t'], acc):
            return f'resumption {k}: logical time advanced by {sec - start["t"]:.6f} s, the deltas sum to {acc:.6f} s'
        if k < n:
            acc += d[k]
    if cobs and not tol(cobs[0], start['cp']):
        return f'child started at logical time {cobs[0]:.6f}, parent was at {start["cp"]:.6f}'
    if len(oobs) == 2 and not tol(oobs[1] - oobs[0], 0.1):
        return f'competing routine: logical time advanced by {oobs[1] - oobs[0]:.6f} s for a delta of 0.1 s'
    if oobs and not tol(oobs[0], start['o']):
        return f'competing routine started at {oobs[0]:.6f}, was played at logical time {start["o"]:.6f}'
    return None


# ------------------------------------------------------------------ main

def main(tier, seed):
    from sc3.base import clock as clk, stream as stm
    chk = Check(PID, 'model_checking', tier, seed)
    chk.functions = src_hash([clk.SystemClock._run.__func__, clk.TempoClock._run, clk.ClockTask, clk.ClockScheduler,
                              clk.SystemClock.sched.__func__, clk.TempoClock.sched, clk.AppClock.sched.__func__,
                              stm.Routine.next, stm.Routine.play, clk.TempoClock._calc_sched_beats])
    rt = []
    for clock in ('sys', 'tempo'):
        for child in ('none', 'same', 'tempo', 'sys'):
            if (clock, child) in (('sys', 'sys'), ('tempo', 'tempo')):
                continue
            for other in (0, 1):
                tempos = [2.0] if tier == 'quick' else [2.0, 0.5, 4.0]      # dyadic: 1/tempo must be exact in the real-number model
                for T in (tempos if 'tempo' in (clock, child) else [2.0]):
                    rt.append(dict(mode='rt', clock=clock, child=child, other=other, nyield=2 if tier == 'quick' else 3,
                                   tempo=T))
    nrt = [dict(mode='nrt', inner=i, tempo=T, offset=o, start=st) for i in ('tempo', 'app', 'sys')
           for T in ([2.0] if tier == 'quick' else [2.0, 0.5]) for o in ((0, 1) if i == 'tempo' else (0,))
           for st in ('play', 'sched')]
    nrt += [dict(mode='nrt', inner='tempo', tempo=2.0, offset=o, start='play', tempo_change=tc) for o in (0, 1)
            for tc in (1, 2, 3)]
    rt += [dict(r, start='sched') for r in rt if r['child'] != 'none' and not r['other']]
    for r in run_jobs('vf.props.c05', 'job', rt, 'rt'):
        chk.add('rt', r)
    for r in run_jobs('vf.props.c05', 'job', nrt, 'nrt'):
        chk.add('nrt', r)
    chk.require_notes('rt', ['rt:sys', 'rt:tempo', 'child:same', 'child:tempo', 'child:sys', 'complete'])
    chk.require_notes('nrt', ['nrt:tempo', 'nrt:app', 'nrt:sys'])
    chk.bounds = {'rt': 'one routine with 2 (quick) / 3 (thorough) symbolic yields + optional competing routine + '
                        'optional child routine on the same / another clock; arbitrary wake-up latency',
                  'nrt': 'routine with 3 yields on SystemClock starting a routine with 2 yields on a TempoClock '
                         '(created at a non-zero time, with/without beats offset), AppClock or SystemClock',
                  'tempo': 'grid', 'outside': 'negative deltas; more than 2 clocks active; nesting deeper than 1'}
    chk.assumptions = ['RT: co-simulation fakes for threading inside sc3.base.clock; physical time arbitrary '
                       'non-decreasing', 'deltas are non-negative exact reals']
    return chk.finish(explanation='closed-form logical time as z3 validity over symbolic deltas and arbitrary jitter')
