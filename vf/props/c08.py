"""C08 -- real-time clocks wake every task once, on time, in order, and survive errors.

The real SystemClock._run / TempoClock._run / AppClock._run loops are co-simulated (vf/cosim.py): physical time is
a symbolic non-decreasing real, the points at which foreign threads' sched / sched_abs / clear / tempo changes
happen relative to the clock thread's sleep/wake cycle and the outcome of every wait (notified / timed out /
blocked for ever) are decided by the solver-driven decision tree, scheduling deltas are symbolic reals.  Obligations
per path (z3 validity): every scheduled task is awakened exactly once per scheduling, never early, in the
zero-jitter sub-model exactly at its scheduled instant (so never waiting for an unrelated later deadline), in
(time, scheduling order) order, numeric returns re-schedule relative to the scheduled time (AppClock: to the
physical present), clear cancels what is pending, a raising task changes nothing for the others, and the clock
thread never blocks for ever while a task is pending.
"""
import itertools
import z3
from .. import symx, cosim
from ..symx import explore, Violation, PathAbort, SymReal, Inconclusive
from ..run import Check, run_jobs, src_hash

PID = 'C08'


def R(x):
    return symx._real(symx._t(x))


class Task:
    def __init__(self, name, world, clock_time, raises=False, resched=None):
        self.name, self.world, self.raises, self.resched = name, world, raises, resched
        self.clock_time = clock_time
        self.wakes = []          # (logical, physical)
        self.epochs = []         # number of tempo changes seen at each wake-up
        self.epoch = lambda: 0

        def call():
            return self.fn()
        call.__qualname__ = name
        self.call = call
        self.sched = []          # (logical scheduled time, physical instant of the scheduling call, seq)

    def fn(self):
        w = self.world
        self.wakes.append((self.clock_time(), w.now))
        self.epochs.append(self.epoch())
        w.log.append((self.name, len(self.wakes) - 1))
        if self.raises:
            raise RuntimeError('task failure (injected)')
        if self.resched is not None and len(self.wakes) == 1:
            return self.resched
        return None


def scenario(ctx, j):
    """j: dict(clock='sys'|'tempo'|'app', raises=bitmask, resched=bool, third=0 none|1 clear|2 sched_abs|3 tempo|4 etempo|5 the same task scheduled again,
    jitter=bool)"""
    kind = j['clock']
    sim = cosim.Sim(ctx, jitter=j.get('jitter', False), max_events=j.get('max_events', 22),
                    appclock_gap=(kind == 'app'))
    rec = {'mode': 'rt', 'job': dict(j)}

    def data(sub):
        return {'key': f'c08:{kind}:{sub}', 'replay': dict(rec, sub=sub)}
    with sim as s:
        w = s.world
        rec['trace'] = w.trace
        clk, main = s.clk, s.m
        seq = itertools.count()
        if kind == 'sys':
            clock = clk.SystemClock
            to_secs = lambda t: t             # noqa
            ctime = lambda: clock.seconds     # noqa
        elif kind == 'app':
            clock = clk.AppClock
            to_secs = lambda t: t             # noqa
            ctime = lambda: w.now             # noqa  AppClock has no logical time: physical present
        else:
            T = float(j.get('tempo', 2.0))     # concrete tempo grid: a symbolic tempo makes every branch non-linear (C12 covers the algebra)
            main.main_tt._m_seconds = w.now
            clock = clk.TempoClock(T)
            ctime = lambda: clock.beats       # noqa
        d = [ctx.real(f'd{i}', 0, None) for i in range(3)]
        r = ctx.real('r', 0, None)
        tasks = [Task(f'f{i}', w, ctime, raises=bool(j['raises'] >> i & 1),
                      resched=(r if (j['resched'] and i == 0) else None)) for i in range(3)]
        cleared_at = []
        tempo_changes = []
        for t_ in tasks:
            t_.epoch = lambda: len(tempo_changes)

        def mk_sched(i, absolute=False):
            def act(world):
                t = tasks[i]
                if kind == 'tempo':
                    base = clock.beats
                elif kind == 'app':
                    base = world.now
                else:
                    base = clock.seconds
                item = t.call
                if j['third'] == 5 and i == 1:
                    # an awakeable object (like a routine): the clock queue identifies it, a plain function would be
                    # wrapped afresh by every sched call
                    from sc3.base import functions as fn
                    if not hasattr(t, 'obj'):
                        t.obj = fn.Function(t.call)
                    item = t.obj
                if absolute:
                    when = base + d[i]
                    clock.sched_abs(when, item)
                else:
                    when = base + d[i]
                    clock.sched(d[i], item)
                t.sched.append((when, world.now, next(seq)))
            return act
        s.foreign('sched f0', mk_sched(0))
        s.foreign('sched f1', mk_sched(1))
        third = j['third']
        if third == 1:
            def clear(world):
                clock.clear()
                cleared_at.append((world.now, next(seq)))
            s.foreign('clear', clear)
        elif third == 2:
            s.foreign('sched_abs f2', mk_sched(2, absolute=(kind != 'app')))
        elif third in (3, 4) and kind == 'tempo':
            T2 = float(j.get('tempo2', 0.5))

            def change(world):
                b0 = clock.beats
                if third == 3:
                    clock.tempo = T2
                else:
                    clock.etempo(T2)        # from a foreign thread logical == physical time: same change instant
                tempo_changes.append((world.now, b0, T2))
            s.foreign('tempo change' if third == 3 else 'etempo change', change)
        elif third == 5:
            # the same task object is scheduled again (possibly while its first scheduling is still pending: the
            # clock queue then holds ONE entry for it, moved to the new time)
            def again(world):
                t = tasks[1]
                base = clock.beats if kind == 'tempo' else (world.now if kind == 'app' else clock.seconds)
                t.replaced = bool(t.sched) and not t.wakes
                from sc3.base import functions as fn
                if not hasattr(t, 'obj'):
                    t.obj = fn.Function(t.call)
                clock.sched(d[2], t.obj)
                t.sched.append((base + d[2], world.now, next(seq)))
            s.foreign('sched f1 again', again)
        probes = []
        if j.get('probe'):
            # the main thread looks at its clock after an AppClock task is over (returned, raised): a task it schedules
            # now on SystemClock with delay x is due at now + x, i.e. the time it reads is the physical present
            def probe(world):
                if not any(t_.wakes for t_ in tasks):
                    raise PathAbort('probe after the first wake-up only')
                probes.append((main.current_tt._seconds, world.now))
            s.foreign('main thread reads its time', probe)
        try:
            try:
                s.run(clock)
            except (PathAbort, Inconclusive, Violation, cosim.EndPath):
                raise
            except Exception as e:
                raise Violation(f'the clock thread died: {type(e).__name__}: {e} (tasks scheduled later are never '
                                f'awakened)', None, data('thread-died'))
            # ---------------- obligations
            if w.truncated:
                raise PathAbort('event budget')      # bounded: longer runs are outside this path
            zero_jitter = not j.get('jitter', False)
            for seen, phys in probes:
                ctx.prove(R(seen) == R(phys), 'after an AppClock task is over the main thread\'s logical time is stale: '
                          'a task it schedules now with SystemClock.sched(x) is due before now + x', data('main-time'))
                ctx.note('probe')
            for t in tasks:
                nsched = len(t.sched)
                if nsched == 0:
                    if t.wakes:
                        raise Violation(f'{t.name} was awakened without being scheduled', None, data('ghost'))
                    continue
                when, at, sq = t.sched[0]
                twice = nsched == 2
                if twice and getattr(t, 'replaced', False):
                    when, at, sq = t.sched[1]        # the pending entry was moved: one wake-up, at the new time
                # cancelled by a later clear?
                cancel = [c for c in cleared_at if c[1] > sq]
                expect = 1 + (1 if (t.resched is not None and not t.raises) else 0)
                if twice and not getattr(t, 'replaced', False):
                    expect += 1
                if cancel:
                    # awakened before the clear or not at all; never after it
                    for (lg, ph) in t.wakes:
                        ctx.prove(R(ph) <= R(cancel[0][0]), f'{t.name} awakened after the clock was cleared',
                                  data('clear'))
                    if len(t.wakes) > expect:
                        raise Violation(f'{t.name} awakened {len(t.wakes)} times', None, data('count'))
                    continue
                if w.blocked and len(t.wakes) < expect:
                    raise Violation(f'clock thread blocks for ever while {t.name} is still pending (scheduled, '
                                    f'awakened {len(t.wakes)} of {expect} times): lost wake-up', None,
                                    data('lost-wakeup'))
                if len(t.wakes) > expect:
                    raise Violation(f'{t.name} awakened {len(t.wakes)} times for {expect} scheduling(s)', None,
                                    data('count'))
                if not t.wakes:
                    continue
                lg, ph = t.wakes[0]
                if kind == 'tempo':
                    # scheduled beat -> seconds through the tempo map in force when it was awakened
                    if t.epochs[0] == 0:
                        due = R(at) + R(d[2] if (twice and getattr(t, 'replaced', False)) else d[tasks.index(t)]) / R(T)
                    else:
                        tc_at, tc_b, tc_T = tempo_changes[0]
                        due = R(tc_at) + (R(when) - R(tc_b)) / R(tc_T)
                        due = z3.If(due >= R(tc_at), due, R(tc_at))
                    ctx.prove(R(lg) == R(when), f'{t.name} is awakened at a logical beat other than the scheduled one',
                              data('logical'))
                else:
                    due = R(when)
                    if kind == 'sys':
                        ctx.prove(R(lg) == R(when), f'{t.name} sees a logical time other than its scheduled time',
                                  data('logical'))
                if due is not None:
                    ctx.prove(R(ph) >= due, f'{t.name} awakened before its scheduled time', data('early'))
                    if zero_jitter:
                        ctx.prove(R(ph) == due, f'{t.name} awakened later than its scheduled time although the '
                                  'clock thread was idle (it waited for an unrelated deadline)', data('late'))
                if len(t.wakes) == 2 and twice:
                    # scheduled again after its first wake-up: the second wake-up belongs to the second scheduling
                    w2_, a2_, _ = t.sched[1]
                    lg2, ph2 = t.wakes[1]
                    due2 = (R(a2_) + R(d[2]) / R(T)) if kind == 'tempo' else R(w2_)
                    ctx.prove(R(ph2) >= due2, f'{t.name} (scheduled again) awakened before its time', data('early'))
                    if zero_jitter and not (kind == 'tempo' and tempo_changes):
                        ctx.prove(R(ph2) == due2, f'{t.name} (scheduled again) awakened late', data('late'))
                elif len(t.wakes) == 2:
                    lg2, ph2 = t.wakes[1]
                    if kind == 'app':
                        ctx.prove(R(ph2) >= R(ph) + R(r), 're-scheduled task awakened early', data('resched'))
                        if zero_jitter:
                            ctx.prove(R(ph2) == R(ph) + R(r), 'AppClock re-schedule is not now + delta',
                                      data('resched'))
                    else:
                        ctx.prove(R(lg2) == R(when) + R(r), 'numeric return does not re-schedule relative to the '
                                  'scheduled time', data('resched'))
                        if kind == 'sys':
                            ctx.prove(R(ph2) >= R(when) + R(r), 're-scheduled task awakened early', data('resched'))
                            if zero_jitter:
                                ctx.prove(R(ph2) == symx._real(symx._t(cosim.symx_max(when + r, ph))),
                                          're-scheduled task awakened late', data('resched-late'))
            # order: consecutive wake-ups are in (time, scheduling order) order when both were pending
            order = [(nm, k) for (nm, k) in w.log]
            byname = {t.name: t for t in tasks}
            for (n1, k1), (n2, k2) in zip(order, order[1:]):
                t1, t2 = byname[n1], byname[n2]
                if k1 > 0 or k2 > 0 or kind == 'app' or len(t1.sched) > 1 or len(t2.sched) > 1:
                    continue
                w1, a1, s1 = t1.sched[0]
                w2, a2, s2 = t2.sched[0]
                ph1 = t1.wakes[0][1]
                # t2 was already scheduled when t1 woke and is due strictly earlier (or tie scheduled earlier)
                pending = R(a2) <= R(ph1)
                if kind == 'tempo' and tempo_changes:
                    continue
                earlier = z3.Or(R(w2) < R(w1), z3.And(R(w2) == R(w1), s2 < s1))
                if s2 < s1:
                    ctx.prove(z3.Not(z3.And(R(a2) <= R(ph1), z3.Or(R(w2) < R(w1), R(w2) == R(w1)))),
                              f'{n1} awakened before {n2} although {n2} was due earlier or first among equals',
                              data('order'))
                else:
                    ctx.prove(z3.Not(z3.And(R(a2) < R(ph1), R(w2) < R(w1))),
                              f'{n1} awakened before {n2} although {n2} was due earlier', data('order'))
            ctx.note(kind)
            if any(t.raises and t.wakes for t in tasks):
                ctx.note('raised')
            if any(len(t.wakes) == 2 for t in tasks):
                ctx.note('rescheduled')
            if cleared_at:
                ctx.note('cleared')
            if tempo_changes:
                ctx.note('tempo-changed')
        finally:
            if kind == 'tempo':
                try:
                    main._atexitq.remove(clock._stop)
                except Exception:
                    pass
        rec['trace'] = list(w.trace)
        return {'clock': kind, 'trace': [list(x) for x in w.trace][:12],
                'wakes': {t.name: len(t.wakes) for t in tasks}}


def at_beats(t, clock):
    return 0


def job(j):
    st = explore(lambda c: scenario(c, j), max_paths=60000, timeout_ms=20000, stop_on_violation=True)
    d = st.as_dict()
    for v in d['violations']:
        rec = v['data']['replay']
        rec['values'] = dict(v['model'])
        rec['decisions'] = v.get('decisions')
        rec['what'] = v['what']
    return d


# ------------------------------------------------------------------ replay on real threads and real time

def replay(rec):
    """The counterexample's schedule is replayed on the real clock threads: the foreign actions are issued from the
    main thread at the model's instants (scaled), the tasks record time.time(); a violation reproduces when a task is
    awakened > 0.2 s late, early, a wrong number of times, or not at all within the horizon."""
    import time
    import threading
    from sc3.base import main as _m, clock as clk
    main = _m.main
    j = rec['job']
    kind = j['clock']
    if rec.get('sub') == 'main-time':
        import logging
        woke = []

        def bad():
            raise RuntimeError('task failure (logged by the clock)')
        logging.disable(logging.CRITICAL)
        clk.AppClock.sched(0.05, bad if j.get('raises') else (lambda: None))
        time.sleep(0.6)
        logging.disable(logging.NOTSET)
        t_call = time.time()
        clk.SystemClock.sched(0.5, lambda: woke.append(time.time()))
        time.sleep(1.0)
        if not woke:
            return 'the task scheduled from the main thread was never awakened'
        if woke[0] - t_call < 0.4:
            return f'SystemClock.sched(0.5) from the main thread, 0.55 s after an AppClock task ' \
                   f'{"raised" if j.get("raises") else "returned"}: awakened {woke[0] - t_call:.3f} s after the call'
        return None
    vals = rec.get('values', {})
    trace = rec.get('trace', [])
    g = lambda n, dflt: float(vals[n]) if vals.get(n) is not None else dflt      # noqa
    # scale: model times are arbitrary reals; normalise the deltas into [0.3, 1.5] keeping their order
    raw = [g(f'd{i}', 0.5) for i in range(3)]
    rr = g('r', 0.4)
    scale = max(raw + [rr, 1e-9])
    f = 1.2 / scale if scale > 0 else 1.0
    d = [max(0.0, x * f) for x in raw]
    r = rr * f
    T = float(j.get('tempo', 2.0))
    T2 = float(j.get('tempo2', 0.5))
    if kind == 'tempo':
        clock = clk.TempoClock(T)
        d = [x * T for x in d]      # deltas are beats: keep the durations in seconds
    elif kind == 'app':
        clock = clk.AppClock
    else:
        clock = clk.SystemClock
    log = []
    lock = threading.Lock()
    t0 = time.time()

    def mk(i):
        state = {'n': 0}

        def fn():
            with lock:
                log.append((i, time.time() - t0))
            state['n'] += 1
            if j['raises'] >> i & 1:
                raise RuntimeError('injected')
            if j['resched'] and i == 0 and state['n'] == 1:
                return r
        return fn
    fns = [mk(i) for i in range(3)]
    if j.get('third') == 5:
        from sc3.base import functions as fn
        fns[1] = fn.Function(fns[1])
    issued = {}
    when_beats = {}
    change = {}
    again = {}
    # order of foreign actions and whether they happened while the thread was waiting, from the trace
    labels = [x[1] for x in trace if x[0] == 'foreign']
    if not labels:
        labels = ['sched f0', 'sched f1']
    gap = 0.35
    park = None
    if kind == 'app' and rec.get('sub') == 'lost-wakeup':
        park = _park_appclock(clk)
    def perform(lb):
        nonlocal clock
        now = time.time() - t0
        if lb != 'sched f1 again' and (lb.startswith('sched f') or lb.startswith('sched_abs f')):
            i = int(lb[-1])
            issued[i] = now
            if kind == 'tempo':
                when_beats[i] = clock.beats + d[i]
            if lb in zero_beat:
                when_beats[i] = 0.0
                clock.sched_abs(0.0, fns[i])
            elif lb.startswith('sched_abs') and kind != 'app':
                base = clock.beats if kind == 'tempo' else clock.seconds
                clock.sched_abs(base + d[i], fns[i])
            else:
                clock.sched(d[i], fns[i])
        elif lb == 'sched f1 again':
            with lock:
                pending = 1 in issued and not any(k == 1 for k, _ in log)
            again['at'], again['pending'] = now, pending
            d2 = d[2]
            if pending and _again_is_later(vals, labels, raw):
                # keep the model's order: the new deadline is not before the one it replaces
                d2 = max(d2, (issued[1] + d[1] / (T if kind == 'tempo' else 1.0) - now + 0.15) *
                         (T if kind == 'tempo' else 1.0))
            clock.sched(d2, fns[1])
        elif lb == 'clear':
            clock.clear()
            issued['clear'] = now
        elif lb == 'tempo change':
            change['at'], change['beats'] = now, clock.beats
            clock.tempo = T2
        elif lb == 'etempo change':
            change['at'], change['beats'] = now, clock.beats
            clock.etempo(T2)
    # a scheduling that the model places at the very instant the clock was created with delay 0 is "beat exactly 0
    # on an idle clock": reproduced with sched_abs(0.0) once the clock thread is parked in its wait
    rest = labels
    zero_beat = set()
    if kind == 'tempo':
        mt = _action_times(vals)
        for lb_, t_ in zip(labels, mt):
            if lb_.startswith('sched f') and lb_ != 'sched f1 again' and t_ == g('t0', 0.0) and raw[int(lb_[-1])] == 0:
                zero_beat.add(lb_)
    try:
        for lb in rest:
            time.sleep(gap)
            perform(lb)
        if park:
            park['release']()
        time.sleep(max(d) + r + 1.0)
        alive = clock._thread is not None and clock._thread.is_alive()
    finally:
        if park:
            park['restore']()
        if kind == 'tempo':
            clock.stop()
    msgs = []
    if not alive:
        msgs.append('the clock thread died (tasks scheduled later are never awakened)')
    for i, at in issued.items():
        if i == 'clear':
            continue
        if i == 1 and again:
            # scheduled twice: only the count is checked here (which scheduling a wake-up belongs to is timing)
            ws = [t for (k, t) in log if k == 1]
            if len(ws) > 2 or (again.get('pending') and len(ws) > 1):
                msgs.append(f'f1 awakened {len(ws)} times')
            if not ws:
                msgs.append('f1 was never awakened within the horizon')
            continue
        due = at + d[i]
        ws = [t for (k, t) in log if k == i]
        cancelled = 'clear' in issued and issued['clear'] > at
        expect = 1 + (1 if (j['resched'] and i == 0 and not (j['raises'] & 1)) else 0)
        if cancelled:
            late = [t for t in ws if t > issued['clear'] + 0.05]
            if late:
                msgs.append(f'f{i} awakened at {late[0]:.2f}s after clear() at {issued["clear"]:.2f}s')
            continue
        tempo_changed = kind == 'tempo' and change
        if kind == 'tempo':
            due = at + d[i] / T
        if tempo_changed:
            # physical due time through the tempo map: the beat is kept, the change re-times what is still pending
            if at >= change['at']:
                due = at + d[i] / T2
            elif due > change['at']:
                due = change['at'] + max(0.0, when_beats[i] - change['beats']) / T2
        if len(ws) < 1:
            msgs.append(f'f{i} scheduled at {at:.2f}s with delay {d[i]:.2f}s was never awakened within the horizon')
            continue
        if len(ws) > expect:
            msgs.append(f'f{i} awakened {len(ws)} times')
        if ws[0] < due - 0.02:
            msgs.append(f'f{i} awakened at {ws[0]:.2f}s, before its time {due:.2f}s')
        if ws[0] > due + 0.2:
            msgs.append(f'f{i} due at {due:.2f}s was awakened at {ws[0]:.2f}s')
        rs = r / T if kind == 'tempo' else r
        if len(ws) == 2 and kind != 'app' and not tempo_changed and abs(ws[1] - (due + rs)) > 0.2:
            msgs.append(f'f{i} re-scheduled by {rs:.2f}s woke at {ws[1]:.2f}s, expected {due + rs:.2f}s')
    return '; '.join(msgs) or None


def _action_times(vals):
    """model instants of the foreign actions, in order (an action taken at decision go{k} happens at adv{k+1})"""
    ks = sorted(int(k[2:]) for k, v in vals.items() if k.startswith('go') and k[2:].isdigit() and v == 1)
    return [float(vals.get(f'adv{k + 1}', 0) or 0) for k in ks]


def _again_is_later(vals, labels, raw):
    """in the model: is the deadline of 'sched f1 again' at or after the deadline of the scheduling it replaces?"""
    times = _action_times(vals)
    at = dict(zip(labels, times))
    if 'sched f1' not in at or 'sched f1 again' not in at:
        return False
    return at['sched f1 again'] + raw[2] >= at['sched f1'] + raw[1]


def _park_appclock(clk):
    """instrument AppClock's lock so that the clock thread is held in the gap between releasing the scheduler lock
    and waiting on its tick condition until the foreign sched() calls are done (schedule replay)"""
    import threading
    real = clk.AppClock._sched_lock
    gate = threading.Event()
    clock_thread = clk.AppClock._thread

    class Parking:
        def __enter__(self):
            real.__enter__()
            return self

        def __exit__(self, *a):
            r = real.__exit__(*a)
            if threading.current_thread() is clock_thread and not gate.is_set():
                gate.wait(5.0)
            return r

        def acquire(self, *a, **k):
            return real.acquire(*a, **k)

        def release(self):
            return real.release()
    clk.AppClock._sched_lock = Parking()
    # make the clock thread go round its loop once so that it parks in the gap
    with clk.AppClock._tick_cond:
        clk.AppClock._tick_cond.notify()

    def restore():
        gate.set()
        clk.AppClock._sched_lock = real
    return {'release': gate.set, 'restore': restore}


# ------------------------------------------------------------------ main

def main(tier, seed):
    from sc3.base import clock as clk
    chk = Check(PID, 'model_checking', tier, seed)
    chk.functions = src_hash([clk.SystemClock._run.__func__, clk.SystemClock._sched_add.__func__,
                              clk.SystemClock.sched.__func__, clk.SystemClock.sched_abs.__func__,
                              clk.SystemClock.clear.__func__, clk.TempoClock._run, clk.TempoClock._sched_add,
                              clk.TempoClock.sched, clk.TempoClock.sched_abs, clk.TempoClock.clear,
                              clk.TempoClock.__dict__['tempo'].fset, clk.TempoClock.etempo, clk.AppClock._run.__func__,
                              clk.AppClock.sched.__func__, clk.AppClock._tick.__func__, clk.Scheduler])
    jobs = []
    for kind in ('sys', 'tempo', 'app'):
        thirds = [0, 1, 2, 5] + ([3, 4] if kind == 'tempo' else [])
        for third in thirds:
            for resched in (0, 1):
                for raises in ((0, 1, 2) if tier == 'quick' else (0, 1, 2, 3, 4)):
                    jobs.append(dict(clock=kind, third=third, resched=resched, raises=raises, jitter=False))
        jobs.append(dict(clock=kind, third=2, resched=1, raises=0, jitter=True))
        if kind == 'tempo':
            # dyadic tempos only: 1/tempo must be exact in the real-number model of floats
            for (ta, tb) in ([(1.0, 4.0), (0.5, 2.0)] if tier == 'quick' else
                             [(1.0, 4.0), (0.5, 2.0), (4.0, 1.0), (2.0, 2.0), (0.25, 4.0)]):
                jobs.append(dict(clock=kind, third=3, resched=1, raises=0, jitter=False, tempo=ta, tempo2=tb))
                jobs.append(dict(clock=kind, third=4, resched=1, raises=0, jitter=False, tempo=ta, tempo2=tb))
        if tier == 'thorough':
            jobs.append(dict(clock=kind, third=1, resched=1, raises=2, jitter=True, max_events=30))
    jobs += [dict(clock='app', third=0, resched=0, raises=rz, jitter=False, probe=1) for rz in (0, 1, 3)]
    for r in run_jobs('vf.props.c08', 'job', jobs, 'rt'):
        chk.add('schedules', r)
    chk.require_notes('schedules', ['sys', 'tempo', 'app', 'raised', 'rescheduled', 'cleared', 'tempo-changed', 'probe'])
    chk.bounds = {'tasks': 3, 'foreign_actions': '2 sched + one of {none, clear, sched_abs, tempo change, etempo change, the same task scheduled again}',
                  'reschedules': 1, 'events_per_path': 22, 'clocks': 'SystemClock, one TempoClock (tempo from a grid), '
                  'AppClock, each alone', 'jitter': 'zero-jitter sub-model for the on-time obligations; arbitrary '
                  'wake-up latency for the never-early/exactly-once obligations',
                  'outside': 'preemption inside regions the library runs without the lock; more than one clock thread '
                             'active at a time; foreign calls issued from other clock threads\' tasks'}
    chk.assumptions = ['threading.Condition / Thread / RLock are replaced by the co-simulation fakes (Python '
                       'conditions have no spurious wake-ups; a notify with no waiter is lost)',
                       'main.elapsed_time returns the symbolic physical time', 'tasks take no time']
    return chk.finish(explanation='bounded model checking of the real run loops against symbolic time and '
                                  'solver-chosen interleavings')
