"""C09 -- TaskQueue is a stable priority queue under any history.

(a) bounded histories: op-codes and task ids are finite control explored completely, priorities are symbolic
    reals (ties are forks of the real heap comparisons); every result is compared with a sorted-list reference by
    z3 validity queries.
(b) inductive step: arbitrary pre-state of <= K heap entries satisfying the representation invariant (heap order on
    (prio, count), entry_finder == live entries, removed_counter == #tombstones), one operation, invariant and
    abstract result re-established.  Covers histories of any length whose heap never exceeds K entries.
"""
import itertools
import z3
from .. import symx
from ..symx import Ctx, explore, Violation, PathAbort, Inconclusive
from ..run import Check, run_jobs, src_hash

PID = 'C09'
TASKS = ['t0', 't1', 't2']


def _fresh(t):
    """an equal but not identical item: the library's own items are bound methods (clock.stop, interface.stop ...),
    which are new objects on every attribute access and are found again by equality"""
    return ''.join(list(t)) if isinstance(t, str) else t
OPS = [('add', 0), ('add', 1), ('add', 2), ('remove', 0), ('remove', 1), ('remove', 2),
       ('pop',), ('peek',), ('peekmax',), ('empty',), ('clear',), ('iter',)]


def _tq():
    from sc3.base import _taskq
    return _taskq


class Ref:
    """sorted-list reference: entries (prio, seq, task)"""

    def __init__(self):
        self.items = []
        self.seq = 0

    def add(self, p, t):
        self.items = [e for e in self.items if e[2] != t]
        self.items.append((p, self.seq, t))
        self.seq += 1

    def remove(self, t):
        self.items = [e for e in self.items if e[2] != t]


def _lt(ctx, a, b):
    """(prio, seq) of a strictly before b, as z3 term (seq concrete)"""
    pa, pb = symx._t(a[0]), symx._t(b[0])
    pa, pb = symx._coerce(pa, pb)
    return z3.Or(pa < pb, z3.And(pa == pb, a[1] < b[1])) if a[1] < b[1] else (pa < pb)


def _same_prio(ctx, got, exp, what, data):
    g, e = symx._coerce(symx._t(got), symx._t(exp))
    ctx.prove(g == e, what, data)


def apply_and_check(ctx, q, ref, op, prio, hist, data_fn):
    """apply op to the real queue and the reference; prove agreement"""
    kind = op[0]
    if kind == 'add':
        t = _fresh(TASKS[op[1]])
        q.add(prio, t)
        ref.add(prio, t)
    elif kind == 'remove':
        t = _fresh(TASKS[op[1]])
        q.remove(t)
        ref.remove(t)
    elif kind == 'clear':
        q.clear()
        ref.items = []
    elif kind == 'empty':
        r = q.empty()
        if bool(r) != (len(ref.items) == 0):
            raise Violation('empty() disagrees with contents', None, data_fn('empty'))
    elif kind in ('pop', 'peek', 'peekmax'):
        try:
            r = q.pop() if kind == 'pop' else q.peek() if kind == 'peek' else q.peek(False)
        except KeyError:
            if ref.items:
                raise Violation(f'{kind}() raised KeyError on a non-empty queue', None, data_fn(kind + '-keyerror'))
            return
        if not ref.items:
            raise Violation(f'{kind}() returned an entry from an empty queue', None, data_fn(kind + '-ghost'))
        cand = [e for e in ref.items if e[2] == r[1]]
        if len(cand) != 1:
            raise Violation(f'{kind}() returned a task that is not in the queue', None, data_fn(kind + '-ghost'))
        me = cand[0]
        _same_prio(ctx, r[0], me[0], f'{kind}() priority of returned task', data_fn(kind + '-prio'))
        for o in ref.items:
            if o is me:
                continue
            if kind == 'peekmax':
                # latest entry: no live entry has a larger time
                a, b = symx._coerce(symx._t(o[0]), symx._t(me[0]))
                ctx.prove(a <= b, 'peek(largest) is not the latest entry', data_fn('peekmax-order'))
            else:
                ctx.prove(_lt(ctx, me, o), f'{kind}() is not the earliest entry (time, then FIFO)',
                          data_fn(kind + '-order'))
        if kind == 'pop':
            ref.items.remove(me)
    elif kind == 'iter':
        got = list(q)
        if len(got) != len(ref.items) or sorted(t for _, t in got) != sorted(e[2] for e in ref.items):
            raise Violation('iteration does not yield exactly the live entries', None, data_fn('iter-content'))
        ents = []
        for p, t in got:
            me = [e for e in ref.items if e[2] == t][0]
            _same_prio(ctx, p, me[0], 'iteration priority', data_fn('iter-prio'))
            ents.append(me)
        for a, b in zip(ents, ents[1:]):
            ctx.prove(_lt(ctx, a, b), 'iteration not in (time, FIFO) order', data_fn('iter-order'))
    # after every operation: emptiness agrees
    if bool(q.empty()) != (len(ref.items) == 0):
        raise Violation('empty() disagrees with contents after ' + kind, None, data_fn('empty-after-' + kind))


def _hist_record(ctx, ops, prios, key):
    def f(sub):
        return {'key': f'taskq:{sub}', 'replay': {'mode': 'none', 'kind': 'history', 'ops': [list(o) for o in ops],
                                                  'prio_names': [getattr(p, 'e', None) is not None and str(p.e) or None
                                                                 for p in prios]}}
    return f


def job_history(job):
    """job = dict(n=number of ops, first=[op indices fixed by the job])"""
    tq = _tq()
    n, first = job['n'], job['first']

    def harness(ctx):
        q = tq.TaskQueue()
        ref = Ref()
        ops, prios = [], []
        for i in range(n):
            oi = first[i] if i < len(first) else ctx.choose(f'op{i}', len(OPS))
            op = OPS[oi]
            p = ctx.real(f'p{i}') if op[0] == 'add' else None
            ops.append(op)
            prios.append(p)
            apply_and_check(ctx, q, ref, op, p, ops, _hist_record(ctx, ops, prios, None))
        # finally drain: everything comes out once, in order
        if job.get('drain', True):
            while ref.items:
                apply_and_check(ctx, q, ref, ('pop',), None, ops, _hist_record(ctx, ops + [('drain',)], prios, None))
            try:
                q.pop()
                raise Violation('pop() on drained queue returned something', None,
                                _hist_record(ctx, ops, prios, None)('drain-ghost'))
            except KeyError:
                pass
        return {'ops': [list(o) for o in ops]}

    st = explore(harness, max_paths=job.get('max_paths', 400000))
    d = st.as_dict()
    _concretise_violations(d)
    return d


def _concretise_violations(d):
    """turn model values into concrete priorities inside the replay record"""
    for v in d['violations']:
        rec = v.get('data', {}).get('replay')
        if not rec:
            continue
        m = v.get('model', {})
        rec['prios'] = [None if nm is None else float(m.get(nm, 0.0)) for nm in rec.pop('prio_names', [])]


# ------------------------------------------------------------------ inductive step

def job_step(job):
    """job = dict(k=heap entries, perm=tuple of counts per heap slot, dead=bitmask of tombstones, op=index)"""
    tq = _tq()
    k, perm, dead, oi = job['k'], job['perm'], job['dead'], job['op']

    def harness(ctx):
        q = tq.TaskQueue()
        names = [f's{i}' for i in range(k)] + TASKS   # pre-existing tasks s*, plus the op's tasks
        prios = [ctx.real(f'h{i}') for i in range(k)]
        ent = []
        live_tasks = []
        for i in range(k):
            is_dead = bool(dead >> i & 1)
            # live pre-state tasks reuse t0.. so that add/remove can hit an existing task
            task = tq.TaskQueue._REMOVED if is_dead else (TASKS[len(live_tasks)] if len(live_tasks) < 3 else names[i])
            if not is_dead:
                live_tasks.append(task)
            ent.append([prios[i], perm[i], task])
        # representation invariant (assumed): heap order on (prio, count)
        for i in range(1, k):
            par = (i - 1) // 2
            a, b = prios[par].e, prios[i].e
            ctx.assume(a < b if perm[par] > perm[i] else a <= b)
        q._queue = list(ent)
        q._entry_finder = {e[2]: e for e in ent if e[2] is not tq.TaskQueue._REMOVED}
        q._removed_counter = sum(1 for e in ent if e[2] is tq.TaskQueue._REMOVED)
        q._counter = itertools.count(k)
        ref = Ref()
        ref.items = sorted(((e[0], e[1], e[2]) for e in ent if e[2] is not tq.TaskQueue._REMOVED), key=lambda e: e[1])
        ref.seq = k
        op = OPS[oi]
        p = ctx.real('pnew') if op[0] == 'add' else None
        live0 = [e[2] for e in ent if e[2] is not tq.TaskQueue._REMOVED]

        def data(sub):
            return {'key': f'taskq:step:{sub}',
                    'replay': {'mode': 'none', 'kind': 'step', 'k': k, 'perm': list(perm), 'dead': dead,
                               'op': list(op), 'live': live0,
                               'prio_names': [f'h{i}' for i in range(k)] + ['pnew']}}
        apply_and_check(ctx, q, ref, op, p, [op], data)
        # invariant re-established
        qq = q._queue
        for i in range(1, len(qq)):
            par = (i - 1) // 2
            a = (qq[par][0], qq[par][1])
            b = (qq[i][0], qq[i][1])
            if a[1] == b[1]:
                raise Violation('duplicate count in heap', None, data('inv-count'))
            ctx.prove(_lt(ctx, a, b) if a[1] < b[1] else
                      (symx._coerce(symx._t(a[0]), symx._t(b[0]))[0] < symx._coerce(symx._t(a[0]), symx._t(b[0]))[1]),
                      'heap order not re-established', data('inv-heap'))
        live = [e for e in qq if e[2] is not tq.TaskQueue._REMOVED]
        if q._removed_counter != len(qq) - len(live):
            raise Violation('tombstone counter out of sync', None, data('inv-removed-counter'))
        if set(q._entry_finder) != {e[2] for e in live} or any(q._entry_finder[e[2]] is not e for e in live):
            raise Violation('entry_finder out of sync with live entries', None, data('inv-finder'))
        if sorted(e[2] for e in live) != sorted(e[2] for e in ref.items):
            raise Violation('live entries differ from abstract contents', None, data('inv-content'))
        for e in live:
            me = [r for r in ref.items if r[2] == e[2]][0]
            if me[1] != e[1]:
                raise Violation('entry sequence number differs from reference', None, data('inv-seq'))
            _same_prio(ctx, e[0], me[0], 'stored priority', data('inv-prio'))
        nxt = next(q._counter)
        if any(e[1] >= nxt for e in qq):
            raise Violation('counter not above existing counts', None, data('inv-counter'))
        return {'k': k, 'perm': list(perm), 'dead': dead, 'op': list(op)}

    st = explore(harness, max_paths=100000)
    d = st.as_dict()
    for v in d['violations']:
        rec = v.get('data', {}).get('replay')
        if rec:
            m = v.get('model', {})
            rec['prios'] = [float(m.get(nm, 0.0)) for nm in rec.pop('prio_names')]
    return d


# ------------------------------------------------------------------ replay (concrete, real code, no shims)

def _concrete_ref_check(q, ops, prios):
    ref = []
    seq = 0

    def key(e):
        return (e[0], e[1])
    for op, p in zip(ops, prios):
        kind = op[0]
        if kind == 'drain':
            continue
        if kind == 'add':
            t = _fresh(TASKS[op[1]] if isinstance(op[1], int) else op[1])
            q.add(p, t)
            ref = [e for e in ref if e[2] != t] + [(p, seq, t)]
            seq += 1
        elif kind == 'remove':
            t = _fresh(TASKS[op[1]] if isinstance(op[1], int) else op[1])
            q.remove(t)
            ref = [e for e in ref if e[2] != t]
        elif kind == 'clear':
            q.clear()
            ref = []
        elif kind in ('pop', 'peek', 'peekmax'):
            try:
                r = q.pop() if kind == 'pop' else q.peek() if kind == 'peek' else q.peek(False)
            except KeyError:
                if ref:
                    return f'{kind} raised KeyError with contents {ref}'
                continue
            if not ref:
                return f'{kind} returned {r} from an empty queue'
            if kind == 'peekmax':
                mx = max(e[0] for e in ref)
                if r[0] != mx or not any(e[2] == r[1] and e[0] == mx for e in ref):
                    return f'peek(largest) returned {r}, contents {ref}'
            else:
                e = min(ref, key=key)
                if (r[0], r[1]) != (e[0], e[2]):
                    return f'{kind} returned {r}, expected {(e[0], e[2])}; contents {ref}'
                if kind == 'pop':
                    ref.remove(e)
        elif kind == 'iter':
            got = list(q)
            exp = [(e[0], e[2]) for e in sorted(ref, key=key)]
            if got != exp:
                return f'iteration gave {got}, expected {exp}'
        if bool(q.empty()) != (not ref):
            return f'empty() == {q.empty()} with contents {ref} after {kind}'
    while ref:
        e = min(ref, key=key)
        try:
            r = q.pop()
        except KeyError:
            return f'drain: KeyError with contents {ref}'
        if (r[0], r[1]) != (e[0], e[2]):
            return f'drain: pop returned {r}, expected {(e[0], e[2])}'
        ref.remove(e)
        if bool(q.empty()) != (not ref):
            return f'drain: empty() == {q.empty()} with contents {ref}'
    try:
        r = q.pop()
        return f'drain: queue still returned {r}'
    except KeyError:
        pass
    return None


# ------------------------------------------------------------------ exit actions (a user of the queue)

EXIT_BEHAV = ['plain', 'adds-late', 'moves-next', 'removes-next']


def _before(a, b):
    """(priority, insertion number) order; forks through the solver for symbolic priorities"""
    return bool(a[0] < b[0]) or (bool(a[0] == b[0]) and a[1] < b[1])


def exit_scenario(ctx, concrete=None):
    """the real Process._shutdown on a scripted exit queue: actions run in (priority, insertion) order, each once;
    an action added, moved or removed WHILE the queue drains is honoured"""
    import sc3
    from sc3.base import main as _m
    main = _m.main
    tq = _tq()
    n = 2 + ctx.choose('n', 2)
    pr = [ctx.real(f'p{i}', 0, 10) for i in range(n)]
    q_late = ctx.real('q', 0, 10)
    behav = [EXIT_BEHAV[ctx.choose(f'b{i}', len(EXIT_BEHAV))] for i in range(n)]
    rec = {'kind': 'exit', 'mode': 'nrt', 'n': n, 'behav': behav, 'names': [f'p{i}' for i in range(n)] + ['q']}
    data = {'key': 'c09:exit-actions', 'replay': rec}
    ran = []
    acts = {}
    saved = main._atexitq
    queue = tq.TaskQueue()
    ref = []          # [prio, seq, name] reference contents
    seq = itertools.count()

    def ref_add(p, name):
        ref[:] = [e for e in ref if e[2] != name]
        ref.append([p, next(seq), name])

    def mk(i):
        def act():
            ran.append(f'a{i}')
            pend = [e[2] for e in ref]
            if behav[i] == 'adds-late':
                queue.add(q_late, acts['late'])
                ref_add(q_late, 'late')
            elif behav[i] == 'moves-next' and pend:
                queue.add(q_late, acts[pend[0]])
                ref_add(q_late, pend[0])
            elif behav[i] == 'removes-next' and pend:
                queue.remove(acts[pend[0]])
                ref[:] = [e for e in ref if e[2] != pend[0]]
        return act
    for i in range(n):
        acts[f'a{i}'] = mk(i)
    acts['late'] = lambda: ran.append('late')
    for i in range(n):
        queue.add(pr[i], acts[f'a{i}'])
        ref_add(pr[i], f'a{i}')
    # the reference order is produced alongside: the action that runs k-th must be the reference minimum at that time
    expect = []
    orig_pop = queue.pop
    main._atexitq = queue
    try:
        with symx.shims():
            # reference drain interleaved through the action bodies: record the expected head before every pop
            def checked_pop():
                if ref:
                    best = ref[0]
                    for e in ref[1:]:
                        if _before(e, best):
                            best = e
                    expect.append(best[2])
                    ref.remove(best)
                return orig_pop()
            queue.pop = checked_pop
            main._shutdown()
    except (PathAbort, Inconclusive, Violation):
        raise
    except Exception as e:
        raise Violation(f'_shutdown raises {type(e).__name__}: {e} (behaviours {behav})', ctx_model(ctx), data)
    finally:
        main._atexitq = saved
        import atexit
        atexit.register(main._shutdown)
    left = [e[2] for e in ref]
    if ran != expect or left:
        # the reference drain may not have been driven by pop() at all (e.g. iteration): finish it here
        while ref:
            best = ref[0]
            for e in ref[1:]:
                if _before(e, best):
                    best = e
            expect.append(best[2])
            ref.remove(best)
        raise Violation(f'exit actions ran {ran}; by (priority, insertion) order with the additions, moves and removals '
                        f'made while draining: {expect} (behaviours {behav})', ctx_model(ctx), data)
    ctx.obligations += 1
    ctx.discharged += 1
    ctx.note('exit')
    for b in behav:
        ctx.note('exit:' + b)
    return {'behav': behav, 'ran': ran}


PPAR_MODES = ['single', 'alternating', 'abandoned', 'nested']


def ppar_scenario(ctx):
    """parallel pattern streams: Ppar merges its children by time; every child event comes out exactly once at the time
    of its own timeline, also when several streams of the same Ppar object are alive at once (alternating), when an
    earlier stream was abandoned half way, and when the same Ppar object occurs twice inside another Ppar"""
    from sc3.seq import event as evt
    from sc3.base import stream as stm
    from sc3.seq.patterns import eventpatterns as evp, listpatterns as lsp
    mode = PPAR_MODES[ctx.choose('mode', len(PPAR_MODES))]
    a = [ctx.real(f'a{i}', 0.125, 2) for i in range(2)]
    b = [ctx.real(f'b{i}', 0.125, 2) for i in range(2)]
    rec = {'kind': 'ppar', 'mode': 'nrt', 'sel': {'mode': PPAR_MODES.index(mode)}, 'names': ['a0', 'a1', 'b0', 'b1']}
    data = {'key': f'c09:ppar:{mode}', 'replay': rec}
    expected = {}
    ch = []
    for base, ds in ((200.0, a), (300.0, b)):
        ch.append(evp.Pbind({'freq': lsp.Pseq([base + k for k in range(len(ds))]), 'dur': lsp.Pseq(list(ds))}))
        acc = 0
        for k, du in enumerate(ds):
            expected[base + k] = acc
            acc = acc + du
    pat = evp.Ppar(*ch)
    copies = 1
    if mode == 'nested':
        pat = evp.Ppar(pat, pat)
        copies = 2

    def step(st):
        """advance one stream by one event; st = [stream, now, trace, done]"""
        if st[3]:
            return
        try:
            ev = st[0].next(evt.event({'k': 1}))
        except stm.StopStream:
            st[3] = True
            return
        if not evt.is_rest(ev):
            st[2].append((ev.get('freq'), st[1]))
        d = ev('delta')
        ctx.prove(symx._real(symx._t(d)) >= 0, 'a parallel pattern stream goes back in time (negative delta)', data)
        st[1] = st[1] + d
    with symx.shims():
        streams = []
        if mode == 'abandoned':
            s0 = [pat.__stream__(), 0, [], False]
            step(s0)
        n = 2 if mode == 'alternating' else 1
        streams = [[pat.__stream__(), 0, [], False] for _ in range(n)]
        for _ in range(24):
            for st in streams:
                step(st)
            if all(st[3] for st in streams):
                break
    for k, st in enumerate(streams):
        if not st[3]:
            raise Violation(f'Ppar ({mode}): stream {k} has not ended after 24 events', None, data)
        got = {}
        for tag, when in st[2]:
            got.setdefault(float(tag), []).append(when)
        for tag, when in expected.items():
            if len(got.get(tag, [])) != copies:
                raise Violation(f'Ppar ({mode}): stream {k} yields event {tag} {len(got.get(tag, []))} times instead of '
                                f'{copies} (trace {[t for t, _ in st[2]]})', None, data)
            for w in got[tag]:
                x, y = symx._coerce(symx._t(w), symx._t(when))
                ctx.prove(x == y, f'Ppar ({mode}): event {tag} is not at the time of its own child\'s timeline', data)
        if sum(len(v) for v in got.values()) != copies * len(expected):
            raise Violation(f'Ppar ({mode}): stream {k} yields extra events {sorted(got)}', None, data)
    ctx.note('ppar:' + mode)
    return {'mode': mode}


def job_ppar(j):
    st = explore(ppar_scenario, max_paths=20000, timeout_ms=10000, stop_on_violation=True)
    d = st.as_dict()
    for v in d['violations']:
        rec = v['data']['replay']
        rec['values'] = {n: (v['model'] or {}).get(n) for n in rec['names']}
        rec['what'] = v['what']
    return d


def sched_scenario(ctx):
    """clock tasks: the scheduler AppClock runs on (both of its modes): tasks that expire in one tick are awakened in
    non-decreasing time, first scheduled first among equal times, each once; a task scheduled by an awakened task
    for a time inside the same tick is awakened too (recursive mode) or left for the next tick (non-recursive)"""
    from sc3.base import clock as clk
    rec_mode = bool(ctx.choose('recursive', 2))
    n = 2 + ctx.choose('n', 2)
    ts = [ctx.real(f'p{i}', 0, 10) for i in range(n)]
    rec = {'kind': 'sched', 'mode': 'nrt', 'sel': {'recursive': int(rec_mode), 'n': n - 2},
           'names': [f'p{i}' for i in range(n)]}
    data = {'key': f'c09:scheduler:{"recursive" if rec_mode else "non-recursive"}', 'replay': rec}
    woke = []
    with symx.shims():
        sch = clk.Scheduler(clk.AppClock, drift=False, recursive=rec_mode)

        def mk(i):
            def f():
                woke.append(i)
            return f
        for i in range(n):
            sch.sched_abs(ts[i], mk(i))
        sch.seconds = 20.0
    if sorted(woke) != list(range(n)):
        raise Violation(f'scheduler tick: tasks awakened {woke}, scheduled {list(range(n))} (each exactly once)', None, data)
    for a, b in zip(woke, woke[1:]):
        ta, tb = symx._coerce(symx._t(ts[a]), symx._t(ts[b]))
        ctx.prove(z3.Or(ta < tb, z3.And(ta == tb, a < b)) if a < b else ta < tb,
                  'tasks expiring in one tick are not awakened in (time, scheduling order) order', data)
    ctx.note('scheduler')
    return {'woke': woke}


def job_sched(j):
    st = explore(sched_scenario, max_paths=20000, timeout_ms=10000, stop_on_violation=True)
    d = st.as_dict()
    for v in d['violations']:
        rec = v['data']['replay']
        rec['values'] = {n: (v['model'] or {}).get(n) for n in rec['names']}
        rec['what'] = v['what']
    return d


def _R(x):
    return symx._real(symx._t(x))


def _br(ctx, e):
    if isinstance(ctx, Ctx):
        return bool(symx.SymBool(e))
    return z3.is_true(z3.simplify(e))


def resched_scenario(ctx):
    """clock tasks in NRT: a task pending because it returned a delta is scheduled AGAIN on the same clock from
    another task (symbolic instants): the pending entry MOVES to the new time (no wake-up at the old one, one at the new
    one), also when the clock's tempo changes afterwards (a cancelled entry must not come back)."""
    from sc3.base import main as _m, clock as clk, functions as fn
    main = _m.main
    which = ctx.choose('clock', 2)
    after = ctx.choose('after', 2) if which == 1 else 0
    first_twice = ctx.choose('twice', 2)      # scheduled twice before its first wake-up, too
    d, tg, r = ctx.real('d', 0, 8), ctx.real('tg', 0, 8), ctx.real('r', 0, 8)
    rec = {'kind': 'resched', 'mode': 'nrt', 'sel': {'clock': which, 'after': after, 'twice': first_twice},
           'names': ['d', 'tg', 'r']}
    data = {'key': f'c09:resched:{("sys", "tempo")[which]}', 'replay': rec}
    log = []
    with symx.shims():
        main.reset()
        try:
            clock = clk.SystemClock if which == 0 else clk.TempoClock(1)
            b0 = clock.beats

            def f(*a):
                log.append(clock.beats)
                return None if len(log) >= 4 else d
            F = fn.Function(f)

            def g(*a):
                clock.sched(r, F)
                if after:
                    clock.tempo = 2
            if first_twice:
                clock.sched(3, F)
            clock.sched(0, F)
            clock.sched(tg, fn.Function(g))
            main._clock_scheduler.run()
        finally:
            main.reset()
    exp = [_R(b0)]
    nxt = _R(b0) + _R(d)
    moved = False
    zero = _R(b0) + _R(tg)
    if _br(ctx, (_R(d) <= 0)) or _br(ctx, (_R(tg) <= 0)):
        raise PathAbort('d, tg > 0')
    while len(exp) < 4:
        if not moved:
            if _br(ctx, (zero == nxt)):
                raise PathAbort('tie between the wake-up and the re-scheduling task')
            if _br(ctx, (zero < nxt)):
                nxt = zero + _R(r)
                moved = True
        exp.append(nxt)
        nxt = nxt + _R(d)
    if not moved:
        raise PathAbort('the task ended before it was scheduled again')
    if len(log) != 4:
        raise Violation(f're-scheduled clock task woke {len(log)} times, expected 4', None, data)
    for i in range(4):
        ctx.prove(_R(log[i]) == exp[i], f're-scheduled clock task: wake-up {i} not at the beat the last scheduling '
                  f'says (woke at {log}: a pending entry was not moved, or a cancelled one came back)', data)
    ctx.note('resched')
    return {'log': len(log)}


def job_resched(j):
    st = explore(resched_scenario, max_paths=20000, timeout_ms=10000, stop_on_violation=True)
    d = st.as_dict()
    for v in d['violations']:
        rec = v['data']['replay']
        rec['values'] = {n: (v['model'] or {}).get(n) for n in rec['names']}
        rec['what'] = v['what']
    return d


def ctx_model(ctx):
    try:
        return ctx.model()
    except Exception:
        return None


def job_exit(j):
    st = explore(exit_scenario, max_paths=20000, timeout_ms=10000, stop_on_violation=True)
    d = st.as_dict()
    for v in d['violations']:
        rec = v['data']['replay']
        rec['values'] = {n: (v['model'] or {}).get(n) for n in rec['names']}
        rec['what'] = v['what']
    return d


def replay(rec):
    tq = _tq()
    if rec['kind'] == 'exit':
        class C:
            obligations = discharged = 0

            def choose(self, name, n):
                if name == 'n':
                    return rec['n'] - 2
                return EXIT_BEHAV.index(rec['behav'][int(name[1:])])

            def real(self, name, *a, **k):
                v = rec.get('values', {}).get(name)
                return float(v) if v is not None else 1.0

            def note(self, s):
                pass

            def model(self):
                return None
        try:
            exit_scenario(C())
        except Violation as v:
            return v.what
        return None
    if rec['kind'] in ('ppar', 'sched', 'resched'):
        class C2:
            obligations = discharged = 0

            def choose(self, name, n):
                return rec['sel'][name]

            def real(self, name, *a, **k):
                v = rec.get('values', {}).get(name)
                return float(v) if v is not None else 1.0

            def note(self, s):
                pass

            def prove(self, cond, what='', data=None):
                ok = cond if isinstance(cond, bool) else z3.is_true(z3.simplify(cond))
                if not ok:
                    raise Violation(what, None, data)
        try:
            {'ppar': ppar_scenario, 'sched': sched_scenario, 'resched': resched_scenario}[rec['kind']](C2())
        except Violation as v:
            return v.what
        return None
    if rec['kind'] == 'history':
        ops = [tuple(o) for o in rec['ops']]
        prios = list(rec['prios']) + [None] * (len(ops) - len(rec['prios']))
        return _concrete_ref_check(tq.TaskQueue(), ops, prios)
    # inductive step: rebuild the abstract pre-state through the public API (adds in count order, then removals)
    k, perm, dead = rec['k'], rec['perm'], rec['dead']
    order = sorted(range(k), key=lambda i: perm[i])
    q = tq.TaskQueue()
    ops, prios = [], []
    live_names = iter(rec['live'])
    slot_task = {}
    extra = 0
    for i in range(k):
        if dead >> i & 1:
            slot_task[i] = None
        else:
            slot_task[i] = next(live_names)
    # concrete history: we only have 3 task tokens; tombstones are produced by re-adding then removing helper tokens
    hist_ops, hist_pr = [], []
    for i in order:
        t = slot_task[i]
        if t is None:
            hist_ops += [('add', 'helper'), ('remove', 'helper')]
            hist_pr += [rec['prios'][i], None]
        else:
            hist_ops.append(('add', TASKS.index(t)))
            hist_pr.append(rec['prios'][i])
    hist_ops.append(tuple(rec['op']))
    hist_pr.append(rec['prios'][-1] if rec['op'][0] == 'add' else None)
    return _concrete_ref_check(q, hist_ops, hist_pr)


# ------------------------------------------------------------------ main

def main(tier, seed):
    tq = _tq()
    chk = Check(PID, 'model_checking', tier, seed)
    chk.functions = src_hash([tq.TaskQueue])
    n = 4 if tier == 'quick' else 5
    ks = [1, 2, 3] if tier == 'quick' else [1, 2, 3, 4]
    chk.bounds = {'history_ops': n, 'tasks': 3, 'ops_alphabet': [list(o) for o in OPS],
                  'inductive_heap_entries': ks,
                  'outside': 'histories longer than the bound whose heap exceeds K entries (incl. tombstones); '
                             'priorities are exact reals (inf/nan priorities not modelled)'}
    chk.assumptions = ['priorities are finite reals (z3 Real); task tokens are 3 distinct hashable objects',
                       'inductive step assumes the representation invariant: heap order on (prio,count), '
                       'entry_finder == live entries, removed_counter == #tombstones, counts distinct and below '
                       'the counter; the step re-proves it, and TaskQueue._init establishes it (checked)']
    depth = 2 if tier == 'quick' else 3
    jobs = [dict(n=n, first=list(f)) for f in itertools.product(range(len(OPS)), repeat=depth)]
    for r in run_jobs('vf.props.c09', 'job_history', jobs, 'none'):
        chk.add('histories', r)
    sjobs = []
    for k in ks:
        for perm in itertools.permutations(range(k)):
            for dead in range(1 << k):
                if k - bin(dead).count('1') > 3:
                    continue   # at most 3 live tokens
                for oi in range(len(OPS)):
                    sjobs.append(dict(k=k, perm=perm, dead=dead, op=oi))
    for r in run_jobs('vf.props.c09', 'job_step', sjobs, 'none'):
        chk.add('inductive_step', r)
    for r in run_jobs('vf.props.c09', 'job_exit', [dict()], 'nrt'):
        chk.add('exit_actions', r)
    chk.require_notes('exit_actions', ['exit'] + ['exit:' + b for b in EXIT_BEHAV])
    for r in run_jobs('vf.props.c09', 'job_sched', [dict()], 'nrt'):
        chk.add('clock_scheduler', r)
    chk.require_notes('clock_scheduler', ['scheduler'])
    for r in run_jobs('vf.props.c09', 'job_resched', [dict()], 'nrt'):
        chk.add('clock_reschedule', r)
    chk.require_notes('clock_reschedule', ['resched'])
    for r in run_jobs('vf.props.c09', 'job_ppar', [dict()], 'nrt'):
        chk.add('parallel_streams', r)
    chk.require_notes('parallel_streams', ['ppar:' + m_ for m_ in PPAR_MODES])
    # init establishes the invariant
    q = tq.TaskQueue()
    if not (q._queue == [] and q._entry_finder == {} and q._removed_counter == 0 and q.empty()):
        chk.inconclusive.append('TaskQueue._init does not establish the representation invariant')
    return chk.finish(explanation='bounded histories (complete over op-codes/tasks, symbolic priorities) plus an '
                                  'inductive step from arbitrary invariant-satisfying heaps')
