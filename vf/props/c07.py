"""C07 -- bundles are stamped with logical time plus latency; scores are ordered.

RT: inside the clock co-simulation (arbitrary jitter) a routine at logical time t sends bundles / messages with
symbolic latency; the datagrams captured at OscInterface._send are decoded by the independent OSC reader, the
timetag placeholder is mapped back to its term, and z3 proves timetag == trunc((t + L) * 2^32) + offset, i.e. no
dependence on the physical send instant; outside routines it is now + L; None / negative -> 1 (immediately);
nested bundles (also as completion-message blobs) are stamped relative to the same send instant and refused when
they precede their parent.  NRT: the real OscScore with sends from routines and from outside: list sorted by
time, FIFO among equal times, entry time == t + L (absolute outside routines), tail marker last, raw == the
concatenation of the length-prefixed encodings of the same bundles in the same order.
"""
import itertools
import struct
import z3
from .. import symx, cosim, oscref
from ..symx import explore, Violation, PathAbort, SymReal, SymInt, Inconclusive
from ..run import Check, run_jobs, src_hash

PID = 'C07'
TWO32 = 2 ** 32


def R(x):
    return symx._real(symx._t(x))


def osc_shims():
    return symx.shims(extra={'sc3.base._osclib': {'struct': symx.OscStructShim}})


def tt_term(v):
    return symx.placeholder_term(v)


def expected_tt(time_term, offset):
    return symx.to_int_trunc(time_term * TWO32) + offset


# ------------------------------------------------------------------ RT

def rt_scenario(ctx, j):
    """j: lat 'pos'|'none'|'neg', form 'bundle'|'msg'|'nested'|'completion', where 'routine'|'outside'"""
    sim = cosim.Sim(ctx, jitter=True, max_events=18, appclock_gap=(j['where'] == 'after-app'))
    rec = {'mode': 'rt', 'job': dict(j)}

    def data(sub):
        return {'key': f'c07:rt:{sub}', 'replay': dict(rec, sub=sub)}
    with sim as s, osc_shims():
        from sc3.base import stream as stm, netaddr as nad
        w, clk, main = s.world, s.clk, s.m
        rec['trace'] = w.trace
        captured = []
        osci = main._osc_interface
        saved_send = osci._send
        osci._send = lambda msg, target: captured.append((bytes(msg.dgram), w.now))
        offset = clk.SystemClock._elapsed_osc_offset
        try:
            L = ctx.real('L', 0, 1000)
            L2 = ctx.real('L2', 0, 1000)
            d0 = ctx.real('d0', 0, 1000)
            ctx.assume(w.now.e <= 1000000)
            lat = {'pos': L, 'none': None, 'neg': -1.0 - L}[j['lat']]
            addr = nad.NetAddr('127.0.0.1', 57110)
            sent = {}

            def send():
                form = j['form']
                if form == 'bundle':
                    addr.send_bundle(lat, ['/a', 1], ['/b', 2.5])
                elif form == 'msg':
                    addr.send_msg('/a', 1)
                elif form == 'nested':
                    addr.send_bundle(lat, ['/a', 1], [L2, ['/c', 3]])
                else:
                    addr.send_msg('/cmd', 7, [L2, ['/done', 1]])

            def body():
                yield d0
                sent['logical'] = clk.SystemClock.seconds
                sent['phys'] = w.now
                try:
                    send()
                except ValueError as e:
                    sent['refused'] = str(e)
                yield 0.0
            r = stm.Routine(body)
            start = {}
            if j['where'] == 'routine':
                def play(world):
                    start['t'] = world.now
                    r.play(clk.SystemClock)
                s.foreign('play', play)
            else:
                def outside(world):
                    if j['where'] == 'after-app' and not start.get('app-done'):
                        raise PathAbort('the send comes after the AppClock task is over')
                    sent['logical'] = world.now
                    sent['phys'] = world.now
                    try:
                        send()
                    except ValueError as e:
                        sent['refused'] = str(e)
                if j['where'] == 'after-app':
                    # a task on AppClock that ends (routine) or fails (function) before the main thread sends
                    def app_body():
                        yield d0
                        start['app-done'] = True

                    def app_fn():
                        start['app-done'] = True
                        raise RuntimeError('task failure (logged by the clock)')

                    def play_app(world):
                        if j.get('app') == 'raises':
                            clk.AppClock.sched(d0, app_fn)
                        else:
                            stm.Routine(app_body).play(clk.AppClock)
                    s.foreign('task on AppClock', play_app)
                s.foreign('send from the main thread', outside)
            s.run(clk.AppClock if j['where'] == 'after-app' else clk.SystemClock)
            if w.truncated or 'logical' not in sent:
                raise PathAbort('not reached')
            t = R(sent['logical'])
            if j['where'] == 'routine':
                ctx.prove(t == R(start['t']) + R(d0), 'routine logical time', data('logical'))
            nested_refused = j['form'] == 'nested' and j['lat'] == 'pos' and ctx.valid(R(L) > R(L2))
            if 'refused' in sent:
                if j['form'] == 'nested' and j['lat'] == 'pos' and ctx.valid(R(L) > R(L2)):
                    ctx.obligations += 1
                    ctx.discharged += 1
                    ctx.note('nested-refused')
                    return {'job': j, 'refused': True}
                raise Violation(f'send refused: {sent["refused"]}', None, data('refused'))
            if nested_refused:
                raise Violation('nested bundle earlier than its parent was accepted', None, data('nested-accepted'))
            if len(captured) != 1:
                raise Violation(f'{len(captured)} datagrams for one send', None, data('count'))
            try:
                tree = oscref.decode(captured[0][0])
            except oscref.OscError as e:
                raise Violation(f'datagram is not OSC 1.0: {e}', None, data('format'))
            form = j['form']
            if form in ('bundle', 'nested'):
                if tree[0] != 'bundle':
                    raise Violation('send_bundle did not produce a bundle', None, data('format'))
                tt = tt_term(tree[1])
                if j['lat'] == 'pos':
                    ctx.prove(tt == expected_tt(t + R(L), offset), 'bundle timetag is not logical time + latency',
                              data('timetag'))
                else:
                    ctx.prove(tt == 1, 'latency None / negative must be stamped "immediately" (1)', data('immediately'))
                if form == 'nested':
                    inner = [e for e in tree[2] if e[0] == 'bundle']
                    if len(inner) != 1:
                        raise Violation('nested bundle missing', None, data('format'))
                    ctx.prove(tt_term(inner[0][1]) == expected_tt(t + R(L2), offset),
                              'nested bundle is not stamped relative to the same send instant', data('nested-timetag'))
                msgs = [m for m in oscref.messages(tree)]
                want = ['/a', '/b'] if form == 'bundle' else ['/a', '/c']
                if [m[1] for m in msgs] != want:
                    raise Violation(f'bundle elements {[m[1] for m in msgs]}', None, data('elements'))
            elif form == 'msg':
                if tree != ('msg', '/a', [('i', 1)]):
                    raise Violation(f'send_msg produced {tree}', None, data('format'))
            else:
                if tree[0] != 'msg' or tree[1] != '/cmd' or len(tree[2]) != 2 or tree[2][1][0] != 'b':
                    raise Violation(f'completion message not encoded as a blob: {tree}', None, data('format'))
                try:
                    inner = oscref.decode(tree[2][1][1])
                except oscref.OscError as e:
                    raise Violation(f'completion blob is not OSC: {e}', None, data('format'))
                if inner[0] != 'bundle':
                    raise Violation('completion blob is not a bundle', None, data('format'))
                ctx.prove(tt_term(inner[1]) == expected_tt(t + R(L2), offset),
                          'completion bundle is not stamped with logical time + its latency', data('completion-timetag'))
            ctx.note('rt:' + form + ':' + j['where'] + ':' + j['lat'])
            return {'job': j, 'datagram_len': len(captured[0][0])}
        finally:
            osci._send = saved_send


def rt_midtask_scenario(ctx, j):
    """a bundle sent from the main thread WHILE the clock thread is in the middle of a task: it is still stamped
    now + latency (never with the logical time the running task was scheduled for)"""
    sim = cosim.Sim(ctx, jitter=True, max_events=14)
    rec = {'mode': 'rt', 'job': dict(j)}

    def data(sub):
        return {'key': f'c07:rt-midtask:{sub}', 'replay': dict(rec, sub=sub)}
    with sim as s, osc_shims():
        from sc3.base import netaddr as nad
        w, clk, main = s.world, s.clk, s.m
        rec['trace'] = w.trace
        captured = []
        osci = main._osc_interface
        saved_send = osci._send
        osci._send = lambda msg, target: captured.append((bytes(msg.dgram), w.now))
        offset = clk.SystemClock._elapsed_osc_offset
        try:
            L = ctx.real('L', 0, 1000)
            d0 = ctx.real('d0', 0, 1000)
            ctx.assume(w.now.e <= 1000000)
            addr = nad.NetAddr('127.0.0.1', 57110)
            info = {}

            def busy():
                info['in-task'] = True
                w.midtask()              # the task takes time; other threads may run meanwhile
                info['in-task'] = False

            def busy_routine():
                busy()
                yield 0.0

            def sched(world):
                if j.get('routine'):
                    from sc3.base import stream as stm
                    clk.SystemClock.sched(d0, stm.Routine(busy_routine))
                else:
                    clk.SystemClock.sched(d0, busy)
            s.foreign('sched busy task', sched)

            def send(world):
                info['sent-mid-task'] = bool(info.get('in-task'))
                info['now'] = world.now
                addr.send_bundle(L, ['/a', 1])
            s.foreign('send from the main thread', send)
            s.run(clk.SystemClock)
            if w.truncated or 'now' not in info:
                raise PathAbort('not reached')
            if len(captured) != 1:
                raise Violation(f'{len(captured)} datagrams for one send', None, data('count'))
            tree = oscref.decode(captured[0][0])
            ctx.prove(tt_term(tree[1]) == expected_tt(R(info['now']) + R(L), offset),
                      'a bundle sent from the main thread ' + ('while a task was running on the clock thread '
                      if info['sent-mid-task'] else '') + 'is not stamped now + latency', data('timetag'))
            ctx.note('rt:midtask' + (':during' if info['sent-mid-task'] else ':between'))
            return {'job': j, 'during': info['sent-mid-task']}
        finally:
            osci._send = saved_send


def law_roundtrip(ctx):
    """incoming conversion: osc_to_elapsed_time(elapsed_time_to_osc(x)) within 2^-32 of x"""
    from sc3.base import clock as clk
    x = ctx.real('x', 0, None)
    dt = {'key': 'c07:roundtrip', 'replay': {'mode': 'rt', 'job': {'law': 'roundtrip'}, 'names': ['x']}}
    with symx.shims():
        o = clk.SystemClock.elapsed_time_to_osc(x)
        y = clk.SystemClock.osc_to_elapsed_time(o)
    ctx.prove(z3.And(R(y) <= R(x), R(x) - R(y) < z3.RealVal(1) / TWO32),
              'osc_to_elapsed_time(elapsed_time_to_osc(x)) is not within 2^-32 below x', dt)
    ctx.note('roundtrip')
    return {'law': 'roundtrip'}


# ------------------------------------------------------------------ NRT

def nrt_scenario(ctx, j):
    """j: sends = list of 'r' (from the routine) / 'o' (outside, before playing) ; lat kinds per send"""
    from sc3.base import main as _m, clock as clk, stream as stm, netaddr as nad
    main = _m.main
    rec = {'mode': 'nrt', 'job': dict(j)}

    def data(sub):
        return {'key': f'c07:nrt:{sub}', 'replay': dict(rec, sub=sub)}
    n = len(j['sends'])
    L = [ctx.real(f'L{i}', 0, 1000) for i in range(n)]
    d = [ctx.real(f'd{i}', 0, 1000) for i in range(n)]
    tail = ctx.real('tail', 0, 1000)
    expected = []       # (time term, seq, address)
    seq = itertools.count()
    with osc_shims():
        main.reset()
        try:
            addr = nad.NetAddr('127.0.0.1', 57110)

            def lat_of(i):
                k = j['lats'][i]
                return {'pos': L[i], 'none': None, 'neg': -1.0 - L[i], 'zero': 0.0}[k]

            def eff(i):
                k = j['lats'][i]
                return R(L[i]) if k == 'pos' else z3.RealVal(0)
            for i, wh in enumerate(j['sends']):
                if wh == 'o':
                    addr.send_bundle(lat_of(i), [f'/o{i}', i])
                    expected.append((eff(i), next(seq), f'/o{i}'))

            def body():
                for i, wh in enumerate(j['sends']):
                    if wh == 'r':
                        yield d[i]
                        now = clk.SystemClock.seconds
                        if j.get('msg') and i == 0:
                            addr.send_msg(f'/r{i}', i)
                            expected.append((R(now), next(seq), f'/r{i}'))
                        else:
                            addr.send_bundle(lat_of(i), [f'/r{i}', i])
                            expected.append((R(now) + eff(i), next(seq), f'/r{i}'))
            stm.Routine(body).play(clk.SystemClock)
            score = main.process(tail)
            lst = score.list
            raw = bytes(score.raw)
        finally:
            main.reset()
    # the root-node bundle the score starts with
    if not lst or lst[0][1][0] != '/g_new':
        raise Violation('score does not start with the root group', None, data('root'))
    if lst[-1][1][0] != '/c_set':
        raise Violation('score does not close with the tail marker: a bundle is listed after it', None, data('tail'))
    body_entries = lst[1:-1]
    if len(body_entries) != len(expected):
        raise Violation(f'{len(body_entries)} bundles listed, {len(expected)} sent', None, data('count'))
    # each sent bundle is listed at exactly its time
    by_addr = {e[2]: e for e in expected}
    listed = []
    for ent in body_entries:
        a = ent[1][0]
        if a not in by_addr:
            raise Violation(f'unknown bundle {a} in the score', None, data('content'))
        ctx.prove(R(ent[0]) == by_addr[a][0], f'bundle {a} is not listed at logical time + latency', data('time'))
        listed.append((R(ent[0]), by_addr[a][1], a))
    # order: non-decreasing time, send order within equal times
    allent = [(R(lst[0][0]), -1, '/g_new')] + listed
    for (t1, s1, a1), (t2, s2, a2) in zip(allent, allent[1:]):
        ctx.prove(t1 <= t2, f'score not ordered by time: {a1} before {a2}', data('order'))
        if s1 > s2:
            ctx.prove(t1 < t2, f'{a1} (sent later) precedes {a2} at an equal time', data('fifo'))
    # tail marker: last, at max(time) + tailtime
    last = lst[-1]
    if last[1][0] != '/c_set':
        raise Violation('score does not close with the tail marker', None, data('tail'))
    end_time = R(main_end_time(j, d))
    for (t1, _, a1) in listed:
        ctx.prove(R(last[0]) >= t1 + R(tail), f'tail marker precedes bundle {a1} + tailtime: the score does not close '
                  'with it', data('tail-time'))
    ctx.prove(R(last[0]) >= end_time + R(tail), 'tail marker is before the end of the program + tailtime',
              data('tail-time'))
    # raw == concatenation of the length-prefixed encodings of the listed bundles, in that order
    i = 0
    k = 0
    while i < len(raw):
        if i + 4 > len(raw):
            raise Violation('raw score truncated', None, data('raw'))
        ln = struct.unpack('>i', raw[i:i + 4])[0]
        i += 4
        try:
            tree = oscref.decode(raw[i:i + ln])
        except oscref.OscError as e:
            raise Violation(f'raw score entry {k} is not OSC 1.0: {e}', None, data('raw'))
        i += ln
        if k >= len(lst):
            raise Violation('raw score has more entries than the list', None, data('raw'))
        if tree[0] != 'bundle':
            raise Violation('raw score entry is not a bundle', None, data('raw'))
        ctx.prove(tt_term(tree[1]) == symx.to_int_trunc(R(lst[k][0]) * TWO32),
                  f'raw score entry {k} is stamped differently from the listed time', data('raw-time'))
        ms = oscref.messages(tree)
        if [m[1] for m in ms] != [e[0] for e in lst[k][1:]]:
            raise Violation(f'raw score entry {k} holds {[m[1] for m in ms]}, the list says '
                            f'{[e[0] for e in lst[k][1:]]}', None, data('raw-order'))
        k += 1
    if k != len(lst):
        raise Violation(f'raw score has {k} entries, the list {len(lst)}', None, data('raw'))
    ctx.note('nrt')
    return {'job': j, 'entries': len(lst)}


def nrt_reuse_scenario(ctx, j):
    """the same (doubly) nested bundle list object is sent twice at different logical times: every level is stamped
    relative to ITS send instant both times, and the caller's list is left as it was"""
    from sc3.base import main as _m, clock as clk, stream as stm, netaddr as nad
    main = _m.main
    rec = {'mode': 'nrt', 'job': dict(j)}

    def data(sub):
        return {'key': f'c07:nrt-reuse:{sub}', 'replay': dict(rec, sub=sub)}
    L = ctx.real('L', 0, 1000)
    L2 = ctx.real('L2', 0, 1000)
    L3 = ctx.real('L3', 0, 1000)
    ctx.assume(z3.And(L.e <= L2.e, L2.e <= L3.e))          # a nested bundle may not precede its parent
    d = [ctx.real('d0', 0, 1000), ctx.real('d1', 0, 1000)]
    deep = j.get('depth', 2) == 2
    nested = [L2, ['/c', 3], [L3, ['/d', 4]]] if deep else [L2, ['/c', 3]]
    times = []
    with osc_shims():
        main.reset()
        try:
            addr = nad.NetAddr('127.0.0.1', 57110)

            def body():
                for k in range(2):
                    yield d[k]
                    times.append(clk.SystemClock.seconds)
                    addr.send_bundle(L, [f'/a{k}', k], nested)
            stm.Routine(body).play(clk.SystemClock)
            score = main.process(0)
            lst = [e for e in score.list if e[1][0] in ('/a0', '/a1')]
        finally:
            main.reset()
    # the caller's object is untouched
    ok = nested[0] is L2 and nested[1] == ['/c', 3] and (not deep or (nested[2][0] is L3 and nested[2][1] == ['/d', 4]))
    if not ok:
        raise Violation(f'sending a nested bundle rewrote the caller\'s list: {nested!r}', ctx.model(), data('mutated'))
    if len(lst) != 2:
        raise Violation(f'{len(lst)} bundles listed for 2 sends', None, data('count'))
    by = {e[1][0]: e for e in lst}
    for k in range(2):
        e = by.get(f'/a{k}')
        if e is None or len(e) != 3 or not isinstance(e[2], list):
            raise Violation(f'send {k} is not listed with its nested bundle: {e!r}', None, data('shape'))
        t = R(times[k])
        ctx.prove(R(e[0]) == t + R(L), f'send {k}: bundle not listed at logical time + latency', data('time'))
        ctx.prove(R(e[2][0]) == t + R(L2), f'send {k}: nested bundle is not stamped relative to this send instant',
                  data('nested-time'))
        if deep:
            ctx.prove(R(e[2][2][0]) == t + R(L3), f'send {k}: inner nested bundle is not stamped relative to this send '
                      'instant (the list object was sent before)', data('nested-time'))
    ctx.note('nrt-reuse')
    return {'job': j}


def nrt_fn_scenario(ctx, j):
    """a plain function scheduled on a clock (not a routine) sends a bundle: listed at its wake-up time + latency, and
    the raw score entry carries exactly that time"""
    from sc3.base import main as _m, clock as clk, stream as stm, netaddr as nad
    main = _m.main
    rec = {'mode': 'nrt', 'job': dict(j)}

    def data(sub):
        return {'key': f'c07:nrt-fn:{sub}', 'replay': dict(rec, sub=sub)}
    L = ctx.real('L', 0, 1000)
    d0 = ctx.real('d0', 0, 1000)
    fd = ctx.real('fd', 0, 1000)
    seen = {}
    with osc_shims():
        main.reset()
        try:
            addr = nad.NetAddr('127.0.0.1', 57110)
            clock = clk.TempoClock(2.0) if j.get('clock') == 'tempo' else (clk.AppClock if j.get('clock') == 'app'
                                                                             else clk.SystemClock)

            def fn():
                seen['t'] = clk.SystemClock.seconds
                addr.send_bundle(L, ['/fn', 1])

            def body():
                yield d0
                seen['sched_at'] = clk.SystemClock.seconds
                clock.sched(fd, fn)
            stm.Routine(body).play(clk.SystemClock)
            score = main.process(0)
            lst = [e for e in score.list if e[1][0] == '/fn']
            raw = bytes(score.raw)
            full = list(score.list)
        finally:
            main.reset()
    if 't' not in seen or len(lst) != 1:
        raise Violation(f'the scheduled function ran {int("t" in seen)} times and {len(lst)} bundles are listed', None,
                        data('count'))
    tempo = 2 if j.get('clock') == 'tempo' else 1
    ctx.prove(R(seen['t']) == R(seen['sched_at']) + R(fd) / tempo, 'scheduled function does not wake at the scheduling '
              'time + delay', data('wake'))
    ctx.prove(R(lst[0][0]) == R(seen['t']) + R(L), 'bundle sent by a scheduled function is not listed at its wake-up '
              'time + latency', data('time'))
    # raw entries
    i = k = 0
    while i < len(raw):
        ln = struct.unpack('>i', raw[i:i + 4])[0]
        i += 4
        tree = oscref.decode(raw[i:i + ln])
        i += ln
        ctx.prove(tt_term(tree[1]) == symx.to_int_trunc(R(full[k][0]) * TWO32),
                  f'raw score entry {k} ({full[k][1][0]}) is stamped differently from the listed time', data('raw-time'))
        k += 1
    ctx.note('nrt-fn')
    return {'job': j}


def main_end_time(j, d):
    """logical time at which process() leaves the main thread: the last executed instant"""
    acc = 0
    for i, wh in enumerate(j['sends']):
        if wh == 'r':
            acc = acc + d[i]
    return acc


def job(j):
    if j.get('law') == 'roundtrip':
        h = law_roundtrip
    elif j.get('midtask'):
        h = lambda c: rt_midtask_scenario(c, j)      # noqa
    elif j['mode'] == 'rt':
        h = lambda c: rt_scenario(c, j)      # noqa
    elif j.get('reuse'):
        h = lambda c: nrt_reuse_scenario(c, j)     # noqa
    elif j.get('fn'):
        h = lambda c: nrt_fn_scenario(c, j)        # noqa
    else:
        h = lambda c: nrt_scenario(c, j)     # noqa
    st = explore(h, max_paths=20000, timeout_ms=20000, stop_on_violation=True)
    d = st.as_dict()
    for v in d['violations']:
        rec = v['data']['replay']
        rec['values'] = dict(v['model'])
        rec['what'] = v['what']
    return d


# ------------------------------------------------------------------ replay

def replay(rec):
    j = rec['job']
    vals = rec.get('values', {})
    g = lambda n, dflt: float(vals[n]) if vals.get(n) is not None else dflt      # noqa
    if j.get('law') == 'roundtrip':
        from sc3.base import clock as clk
        x = g('x', 1.5)
        y = clk.SystemClock.osc_to_elapsed_time(clk.SystemClock.elapsed_time_to_osc(x))
        return None if 0 <= x - y < 2 ** -31 else f'round trip of {x} gives {y}'
    if j.get('midtask'):
        return _replay_midtask(j, g)
    if j.get('fn'):
        return _replay_fn(j, g)
    if j.get('reuse'):
        return _replay_reuse(j, g)
    if j['mode'] == 'nrt':
        return _replay_nrt(j, g)
    return _replay_rt(j, g)


def _replay_fn(j, g):
    from sc3.base import main as _m, clock as clk, stream as stm, netaddr as nad
    main = _m.main
    L, d0, fd = g('L', 0.25), g('d0', 0.5), g('fd', 0.5)
    seen = {}
    main.reset()
    try:
        addr = nad.NetAddr('127.0.0.1', 57110)
        clock = clk.TempoClock(2.0) if j.get('clock') == 'tempo' else (clk.AppClock if j.get('clock') == 'app'
                                                                         else clk.SystemClock)

        def fn():
            seen['t'] = clk.SystemClock.seconds
            addr.send_bundle(L, ['/fn', 1])

        def body():
            yield d0
            clock.sched(fd, fn)
        stm.Routine(body).play(clk.SystemClock)
        score = main.process(0)
        full = list(score.list)
        raw = bytes(score.raw)
    finally:
        main.reset()
    lst = [e for e in full if e[1][0] == '/fn']
    if 't' not in seen or len(lst) != 1:
        return f'the scheduled function ran {int("t" in seen)} times and {len(lst)} bundles are listed'
    if abs(lst[0][0] - (seen['t'] + L)) > 1e-9:
        return f'bundle sent by a function scheduled on the clock (woken at {seen["t"]}) with latency {L} is listed at ' \
               f'{lst[0][0]}'
    i = k = 0
    while i < len(raw):
        ln = struct.unpack('>i', raw[i:i + 4])[0]
        i += 4
        tree = oscref.decode(raw[i:i + ln])
        i += ln
        if abs(tree[1] / 2 ** 32 - full[k][0]) > 1e-6:
            return f'raw score entry {k} ({full[k][1][0]}) carries time {tree[1] / 2 ** 32}, listed at {full[k][0]}'
        k += 1
    return None


def _replay_midtask(j, g):
    """real threads: a task that takes 0.5 s runs on the SystemClock thread; the main thread sends in the middle"""
    import time
    from sc3.base import main as _m, clock as clk, netaddr as nad
    main = _m.main
    osci = main._osc_interface
    captured = []
    saved = osci._send
    osci._send = lambda msg, target: captured.append(bytes(msg.dgram))
    try:
        addr = nad.NetAddr('127.0.0.1', 57110)
        L = min(g('L', 0.25), 5.0)
        started = []

        def busy():
            started.append(main.elapsed_time())
            time.sleep(0.5)

        def busy_routine():
            busy()
            yield 0.0
        if j.get('routine'):
            from sc3.base import stream as stm
            clk.SystemClock.sched(0.2, stm.Routine(busy_routine))
        else:
            clk.SystemClock.sched(0.2, busy)
        t0 = time.time()
        while not started and time.time() - t0 < 3:
            time.sleep(0.005)
        time.sleep(0.2)                      # now the clock thread is in the middle of the task
        now = main.elapsed_time()
        addr.send_bundle(L, ['/a', 1])
        after = main.elapsed_time()
        time.sleep(0.6)
    finally:
        osci._send = saved
    if len(captured) != 1:
        return f'{len(captured)} datagrams for one send'
    tree = oscref.decode(captured[0])
    stamped = clk.SystemClock.osc_to_elapsed_time(tree[1]) - L
    # the send may legitimately wait for the task to finish (it needs the lock): any instant between the call and its
    # return is "now"; the scheduled time of the running task is not
    if not (now - 0.02 <= stamped <= after + 0.02):
        return f'bundle sent from the main thread at {now:.3f}..{after:.3f} s (while a task scheduled for ' \
               f'{started[0]:.3f} s was running) is stamped {stamped:.3f} s + latency'
    return None


def _replay_reuse(j, g):
    from sc3.base import main as _m, clock as clk, stream as stm, netaddr as nad
    main = _m.main
    L, L2, L3 = g('L', 0.25), g('L2', 0.5), g('L3', 0.75)
    d = [g('d0', 1.0), g('d1', 1.0)]
    if d[1] == 0:
        d[1] = 1.0          # the defect needs two different send instants; any positive gap shows it
    deep = j.get('depth', 2) == 2
    nested = [L2, ['/c', 3], [L3, ['/d', 4]]] if deep else [L2, ['/c', 3]]
    import copy
    before = copy.deepcopy(nested)
    times = []
    main.reset()
    try:
        addr = nad.NetAddr('127.0.0.1', 57110)

        def body():
            for k in range(2):
                yield d[k]
                times.append(clk.SystemClock.seconds)
                addr.send_bundle(L, [f'/a{k}', k], nested)
        stm.Routine(body).play(clk.SystemClock)
        lst = [e for e in main.process(0).list if e[1][0] in ('/a0', '/a1')]
    finally:
        main.reset()
    if nested != before:
        return f'sending a nested bundle rewrote the caller\'s list: {before} -> {nested}'
    for k, e in enumerate(lst):
        want = [times[k] + L, times[k] + L2] + ([times[k] + L3] if deep else [])
        got = [e[0], e[2][0]] + ([e[2][2][0]] if deep else [])
        if any(abs(a - b) > 1e-9 for a, b in zip(want, got)):
            return f'send {k} at {times[k]}: listed times {got}, expected {want}'
    return None


def _replay_nrt(j, g):
    from sc3.base import main as _m, clock as clk, stream as stm, netaddr as nad
    main = _m.main
    n = len(j['sends'])
    L = [g(f'L{i}', 0.25 * (i + 1)) for i in range(n)]
    d = [g(f'd{i}', 0.5) for i in range(n)]
    tail = g('tail', 1.0)
    main.reset()
    addr = nad.NetAddr('127.0.0.1', 57110)
    expected = []

    def lat_of(i):
        return {'pos': L[i], 'none': None, 'neg': -1.0 - L[i], 'zero': 0.0}[j['lats'][i]]

    def eff(i):
        return L[i] if j['lats'][i] == 'pos' else 0.0
    for i, wh in enumerate(j['sends']):
        if wh == 'o':
            addr.send_bundle(lat_of(i), [f'/o{i}', i])
            expected.append((eff(i), f'/o{i}'))

    def body():
        for i, wh in enumerate(j['sends']):
            if wh == 'r':
                yield d[i]
                now = clk.SystemClock.seconds
                if j.get('msg') and i == 0:
                    addr.send_msg(f'/r{i}', i)
                    expected.append((now, f'/r{i}'))
                else:
                    addr.send_bundle(lat_of(i), [f'/r{i}', i])
                    expected.append((now + eff(i), f'/r{i}'))
    stm.Routine(body).play(clk.SystemClock)
    score = main.process(tail)
    lst, raw = score.list, bytes(score.raw)
    main.reset()
    tol = lambda a, b: abs(a - b) < 1e-9      # noqa
    want = sorted(range(len(expected)), key=lambda i: (expected[i][0], i))
    got = [(e[0], e[1][0]) for e in lst[1:-1]]
    exp = [(expected[i][0], expected[i][1]) for i in want]
    if len(got) != len(exp) or any(a[1] != b[1] or not tol(a[0], b[0]) for a, b in zip(got, exp)):
        return f'score lists {got}, expected {exp}'
    end = sum(d[i] for i, wh in enumerate(j['sends']) if wh == 'r')
    if lst[-1][1][0] != '/c_set':
        return f'the score does not close with the tail marker: {[e[1][0] for e in lst]}'
    latest = max([e[0] for e in lst[1:-1]] + [end])
    if lst[-1][0] < latest + tail - 1e-9:
        return f'tail marker at {lst[-1][0]}, latest bundle / program end at {latest} and tailtime {tail}'
    i = k = 0
    while i < len(raw):
        ln = struct.unpack('>i', raw[i:i + 4])[0]
        tree = oscref.decode(raw[i + 4:i + 4 + ln])
        i += 4 + ln
        if tree[1] != int(lst[k][0] * TWO32):
            return f'raw entry {k} stamped {tree[1] / TWO32:.6f}, listed at {lst[k][0]:.6f}'
        if [m[1] for m in oscref.messages(tree)] != [e[0] for e in lst[k][1:]]:
            return f'raw entry {k} content differs from the list'
        k += 1
    if k != len(lst):
        return 'raw/list entry count differs'
    return None


def _replay_rt(j, g):
    """real clock thread, made late by a slow first step; datagrams captured at _send"""
    import time
    from sc3.base import main as _m, clock as clk, stream as stm, netaddr as nad
    main = _m.main
    osci = main._osc_interface
    captured = []
    saved = osci._send
    osci._send = lambda msg, target: captured.append(bytes(msg.dgram))
    L, L2 = min(g('L', 0.2), 5.0), min(g('L2', 0.3), 5.0)
    if j['form'] == 'nested' and L > L2:
        L2 = L + 0.1
    lat = {'pos': L, 'none': None, 'neg': -1.0 - L}[j['lat']]
    addr = nad.NetAddr('127.0.0.1', 57110)
    sent = {}

    def send():
        if j['form'] == 'bundle':
            addr.send_bundle(lat, ['/a', 1], ['/b', 2.5])
        elif j['form'] == 'msg':
            addr.send_msg('/a', 1)
        elif j['form'] == 'nested':
            addr.send_bundle(lat, ['/a', 1], [L2, ['/c', 3]])
        else:
            addr.send_msg('/cmd', 7, [L2, ['/done', 1]])

    def body():
        time.sleep(0.3)          # the clock thread is now late for the next step
        yield 0.05
        sent['logical'] = clk.SystemClock.seconds
        send()
    try:
        if j['where'] == 'routine':
            stm.Routine(body).play(clk.SystemClock)
            time.sleep(0.8)
        else:
            if j['where'] == 'after-app':
                def app_body():
                    yield 0.05

                def app_fn():
                    raise RuntimeError('task failure (logged by the clock)')
                import logging
                logging.disable(logging.CRITICAL)
                if j.get('app') == 'raises':
                    clk.AppClock.sched(0.05, app_fn)
                else:
                    stm.Routine(app_body).play(clk.AppClock)
                time.sleep(0.6)          # the AppClock task is over; the main thread sends half a second later
                logging.disable(logging.NOTSET)
            sent['logical'] = main.elapsed_time()
            send()
    finally:
        osci._send = saved
    if len(captured) != 1:
        return f'{len(captured)} datagrams'
    tree = oscref.decode(captured[0])
    off = clk.SystemClock._elapsed_osc_offset
    t = sent['logical']
    slack = int(0.02 * TWO32) if j['where'] in ('outside', 'after-app') else 2
    if j['form'] in ('bundle', 'nested'):
        want = 1 if j['lat'] != 'pos' else int((t + L) * TWO32) + off
        if abs(tree[1] - want) > slack:
            return f'bundle stamped {(tree[1] - off) / TWO32:.6f}, logical time + latency is {t + L:.6f}'
        if j['form'] == 'nested':
            inner = [e for e in tree[2] if e[0] == 'bundle'][0]
            if abs(inner[1] - (int((t + L2) * TWO32) + off)) > slack:
                return f'nested bundle stamped {(inner[1] - off) / TWO32:.6f}, expected {t + L2:.6f}'
    elif j['form'] == 'completion':
        inner = oscref.decode(tree[2][1][1])
        if abs(inner[1] - (int((t + L2) * TWO32) + off)) > slack:
            return f'completion bundle stamped {(inner[1] - off) / TWO32:.6f}, logical time + latency is {t + L2:.6f}'
    return None


# ------------------------------------------------------------------ main

def main(tier, seed):
    from sc3.base import _oscinterface as osci, clock as clk, netaddr as nad
    chk = Check(PID, 'model_checking', tier, seed)
    O = osci.OscInterface
    chk.functions = src_hash([O.send_msg, O.send_bundle, O._build_msg, O._build_bundle, O._get_timetag,
                              O._check_subtime, osci.OscNrtInterface._get_timetag, osci.OscNrtInterface.send_bundle,
                              osci.OscNrtInterface.send_msg, osci.OscScore.add, osci.OscScore._process_bndl_time,
                              osci.OscScore._get_logical_time, osci.OscScore.finish,
                              clk.SystemClock.elapsed_time_to_osc.__func__, clk.SystemClock.osc_to_elapsed_time.__func__])
    rt = [dict(mode='rt', form=f, lat=l, where=wh) for f in ('bundle', 'nested', 'msg', 'completion')
          for l in (('pos', 'none', 'neg') if f in ('bundle', 'nested') else ('pos',)) for wh in ('routine', 'outside')]
    rt.append(dict(mode='rt', law='roundtrip'))
    rt += [dict(mode='rt', form='bundle', lat='pos', where='after-app', app=a) for a in ('ends', 'raises')]
    lat_kinds = ['pos', 'none', 'neg', 'zero']
    nrt = []
    nmax = 3 if tier == 'quick' else 4
    for n in range(1, nmax + 1):
        for sends in itertools.product('ro', repeat=n):
            if 'r' not in sends:
                continue
            lat_sets = [tuple(['pos'] * n)]
            lat_sets += [tuple('neg' if k == i else 'pos' for k in range(n)) for i in range(n)]
            lat_sets += [tuple('none' if k == i else 'pos' for k in range(n)) for i in range(min(n, 2))]
            if tier == 'thorough':
                lat_sets += [tuple(x) for x in itertools.product(lat_kinds, repeat=n)]
            for lats in dict.fromkeys(lat_sets):
                nrt.append(dict(mode='nrt', sends=list(sends), lats=list(lats), msg=0))
            nrt.append(dict(mode='nrt', sends=list(sends), lats=['pos'] * n, msg=1))
    nrt += [dict(mode='nrt', reuse=1, depth=1), dict(mode='nrt', reuse=1, depth=2)]
    rt.append(dict(mode='rt', midtask=1))
    rt.append(dict(mode='rt', midtask=1, routine=1))
    nrt += [dict(mode='nrt', fn=1, clock=c) for c in ('sys', 'tempo', 'app')]
    for r in run_jobs('vf.props.c07', 'job', rt, 'rt'):
        chk.add('rt', r)
    for r in run_jobs('vf.props.c07', 'job', nrt, 'nrt'):
        chk.add('nrt', r)
    chk.require_notes('rt', ['roundtrip', 'nested-refused', 'rt:bundle:routine:pos', 'rt:bundle:outside:pos',
                             'rt:completion:routine:pos', 'rt:nested:routine:pos', 'rt:bundle:routine:none',
                             'rt:bundle:routine:neg', 'rt:msg:routine:pos', 'rt:midtask:between'])
    chk.require_notes('nrt', ['nrt', 'nrt-reuse', 'nrt-fn'])
    chk.bounds = {'rt': 'one send (bundle, nested bundle, message, message with completion-bundle blob) with symbolic '
                        'latencies from a routine step under arbitrary jitter or from the main thread',
                  'nrt': f'1..{nmax} sends from a routine / from outside, latency kinds pos/none/negative/zero, symbolic '
                         'latencies, yields and tailtime', 'times': 'latencies/yields <= 1000 s, physical time <= 10^6 s (timetags stay inside uint64)', 'outside': 'nesting deeper than 2; TempoClock routines '
                         '(C05 covers their logical time); more than one routine'}
    chk.assumptions = ['struct inside sc3.base._osclib packs symbolic timetags as placeholders that the independent '
                       'OSC reader maps back to terms', 'floats are exact reals: int(x * 2^32) is truncation']
    return chk.finish(explanation='timetag terms read from the real datagrams / score vs closed form (z3)')
