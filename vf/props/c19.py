"""C19 -- envelopes encode to the server format and evaluate consistently.

Real Env objects are built from symbolic levels, times (> 0) and numeric curves; finite control (segment count,
curve spec kind, release/loop nodes, constructor) is explored completely.  Obligations (z3 validity per path):
 (A) _envgen_format layout [L0, n, rel|-99, loop|-99, (L_i, T_i, shape_i, curve_i)*] with wrap indexing and the
     server's shape numbers (independent table);
 (B) the standard constructors' breakpoints equal their documented formulas;
 (C) _at(t): level at every breakpoint, between the neighbouring levels inside a segment, last level afterwards.
Transcendental shapes use uninterpreted kernels with the axioms listed in the evidence.
"""
import itertools
import z3
from .. import symx
from ..symx import explore, Violation, PathAbort, SymReal, SymInt, Inconclusive
from ..run import Check, run_jobs, src_hash

PID = 'C19'

# independent table: server shape numbers (SuperCollider EnvGen help / SC_Env shape enum)
SHAPES = {'step': 0, 'lin': 1, 'linear': 1, 'exp': 2, 'exponential': 2, 'sin': 3, 'sine': 3, 'wel': 4, 'welch': 4,
          'sqr': 6, 'squared': 6, 'cub': 7, 'cubed': 7, 'hold': 8}
REP_NAMES = ['exp', 'welch', 'hold']     # representative names inside curve lists (every name is covered by the 'name' kind)
AT_SHAPES = ['step', 'lin', 'exp', 'sin', 'wel', 'num', 'sqr', 'cub', 'hold']


def _env():
    from sc3.synth import envelope
    return envelope


def R(x):
    return symx._real(symx._t(x))


def _eq(ctx, a, b, what, data):
    if isinstance(a, str) or isinstance(b, str) or a is None or b is None:
        ctx.prove(a == b, f'{what}: {a!r} vs {b!r}', data)
        return
    ctx.prove(R(a) == R(b), what, data)


# ------------------------------------------------------------------ (A) layout

CURVE_KINDS = ['name', 'number', 'names-short', 'numbers-short', 'mixed-full', 'default']


def law_layout(ctx, n, ck):
    env = _env()
    levels = [ctx.real(f'L{i}') for i in range(n + 1)]
    nt = ctx.choose('ntimes', n) + 1                      # times list may be shorter than the segment count
    times = [ctx.real(f'T{i}', 0, None, lo_strict=True) for i in range(nt)]
    names = sorted(set(SHAPES))
    kind = CURVE_KINDS[ck]
    if kind == 'name':
        curves = names[ctx.choose('shape', len(names))]
        clist = [curves]
    elif kind == 'number':
        curves = ctx.real('C0')
        clist = [curves]
    elif kind == 'names-short':
        m = ctx.choose('ncurves', n) + 1
        clist = [REP_NAMES[ctx.choose(f'shape{i}', len(REP_NAMES))] for i in range(m)]
        curves = list(clist)
    elif kind == 'numbers-short':
        m = ctx.choose('ncurves', n) + 1
        clist = [ctx.real(f'C{i}') for i in range(m)]
        curves = list(clist)
    elif kind == 'mixed-full':
        clist = [REP_NAMES[ctx.choose(f'shape{i}', len(REP_NAMES))] if ctx.choose(f'isname{i}', 2) else ctx.real(f'C{i}')
                 for i in range(n)]
        curves = list(clist)
    else:
        curves = None
        clist = ['lin']
    rel = [None, 0, n - 1][ctx.choose('rel', 3)]
    loop = [None, 0][ctx.choose('loop', 2)]
    data = {'key': 'env:layout', 'replay': {'mode': 'nrt', 'kind': 'layout', 'n': n, 'nt': nt, 'rel': rel, 'loop': loop,
                                            'curves': [c if isinstance(c, str) else None for c in clist],
                                            'curve_kind': kind,
                                            'names': [f'L{i}' for i in range(n + 1)] + [f'T{i}' for i in range(nt)] +
                                            [f'C{i}' for i in range(n)]}}
    with symx.shims():
        if curves is None:
            e = env.Env(list(levels), list(times), release_node=rel, loop_node=loop)
        else:
            e = env.Env(list(levels), list(times), curves, rel, loop)
        if ctx.choose('interp_first', 2):
            # the same object used for IEnvGen first: the two layouts are cached separately
            e._interpolation_format()
            data['replay']['interp_first'] = 1
        fmt = e._envgen_format()
    if len(fmt) != 1:
        raise Violation(f'single-channel envelope produced {len(fmt)} channels', None, data)
    a = fmt[0]
    if len(a) != 4 + 4 * n:
        raise Violation(f'envgen format has {len(a)} entries, expected {4 + 4 * n}', None, data)
    _eq(ctx, a[0], levels[0], 'initial level', data)
    _eq(ctx, a[1], n, 'segment count', data)
    _eq(ctx, a[2], -99 if rel is None else rel, 'release node (-99 when absent)', data)
    _eq(ctx, a[3], -99 if loop is None else loop, 'loop node (-99 when absent)', data)
    for i in range(n):
        c = clist[i % len(clist)]
        _eq(ctx, a[4 + 4 * i], levels[i + 1], f'target level of segment {i}', data)
        _eq(ctx, a[5 + 4 * i], times[i % nt], f'duration of segment {i} (times wrapped)', data)
        _eq(ctx, a[6 + 4 * i], SHAPES[c] if isinstance(c, str) else 5, f'shape number of segment {i}', data)
        _eq(ctx, a[7 + 4 * i], 0 if isinstance(c, str) else c, f'curvature of segment {i}', data)
    return {'law': 'layout', 'n': n, 'curves': kind}


# ------------------------------------------------------------------ (B) constructors

def law_constructor(ctx, which):
    env = _env()
    E = env.Env
    P = lambda n, pos=False: ctx.real(n, 0, None, lo_strict=True) if pos else ctx.real(n)   # noqa
    data = {'key': f'env:constructor:{which}', 'replay': {'mode': 'nrt', 'kind': 'constructor', 'which': which,
                                                          'names': []}}

    def chk(e, levels, times, curves, rel=None, loop=None):
        if len(e.levels) != len(levels) or len(e.times) != len(times):
            raise Violation(f'{which}: {len(e.levels)} levels / {len(e.times)} times, documented '
                            f'{len(levels)} / {len(times)}', None, data)
        for i, (x, y) in enumerate(zip(e.levels, levels)):
            _eq(ctx, x, y, f'{which}: level {i}', data)
        for i, (x, y) in enumerate(zip(e.times, times)):
            _eq(ctx, x, y, f'{which}: time {i}', data)
        cv = e.curves if isinstance(e.curves, list) else [e.curves] * len(times)
        cx = curves if isinstance(curves, list) else [curves] * len(times)
        for i in range(len(times)):
            _eq(ctx, cv[i % len(cv)], cx[i % len(cx)], f'{which}: curve {i}', data)
        ctx.prove(e.release_node == rel, f'{which}: release node {e.release_node} documented {rel}', data)
        ctx.prove(e.loop_node == loop, f'{which}: loop node {e.loop_node} documented {loop}', data)
    with symx.shims():
        if which == 'triangle':
            d, l = P('dur', True), P('level')
            data['replay']['names'] = ['dur', 'level']
            chk(E.triangle(d, l), [0, l, 0], [d / 2, d / 2], 'lin')
        elif which == 'sine':
            d, l = P('dur', True), P('level')
            data['replay']['names'] = ['dur', 'level']
            chk(E.sine(d, l), [0, l, 0], [d / 2, d / 2], 'sine')
        elif which == 'perc':
            a, r, l, c = P('attack', True), P('release', True), P('level'), P('curve')
            data['replay']['names'] = ['attack', 'release', 'level', 'curve']
            chk(E.perc(a, r, l, c), [0, l, 0], [a, r], c)
        elif which == 'linen':
            a, s, r, l = P('attack', True), P('sustain', True), P('release', True), P('level')
            data['replay']['names'] = ['attack', 'sustain', 'release', 'level']
            chk(E.linen(a, s, r, l), [0, l, l, 0], [a, s, r], 'lin')
        elif which == 'adsr':
            a, d, s, r, p, c, b = (P('attack', True), P('decay', True), P('sus'), P('release', True), P('peak'),
                                   P('curve'), P('bias'))
            data['replay']['names'] = ['attack', 'decay', 'sus', 'release', 'peak', 'curve', 'bias']
            chk(E.adsr(a, d, s, r, p, c, b), [b, p + b, p * s + b, b], [a, d, r], c, 2)
        elif which == 'dadsr':
            dl, a, d, s, r, p, c, b = (P('delay', True), P('attack', True), P('decay', True), P('sus'),
                                       P('release', True), P('peak'), P('curve'), P('bias'))
            data['replay']['names'] = ['delay', 'attack', 'decay', 'sus', 'release', 'peak', 'curve', 'bias']
            chk(E.dadsr(dl, a, d, s, r, p, c, b), [b, b, p + b, p * s + b, b], [dl, a, d, r], c, 3)
        elif which == 'asr':
            a, s, r, c = P('attack', True), P('sus'), P('release', True), P('curve')
            data['replay']['names'] = ['attack', 'sus', 'release', 'curve']
            chk(E.asr(a, s, r, c), [0, s, 0], [a, r], c, 1)
        elif which == 'cutoff':
            r, l = P('release', True), P('level')
            data['replay']['names'] = ['release', 'level']
            # an exponential release cannot reach zero: it ends at -100 dB, whatever name the shape is given by
            cv = CUTOFF_CURVES[ctx.choose('cutoff_curve', len(CUTOFF_CURVES))]
            data['replay']['cutoff_curve'] = cv
            end = 1e-05 if cv in ('exp', 'exponential') else 0
            chk(E.cutoff(r, l, cv), [l, end], [r], cv, 0)
        elif which == 'step':
            l0, l1, t0, t1 = P('l0'), P('l1'), P('t0', True), P('t1', True)
            data['replay']['names'] = ['l0', 'l1', 't0', 't1']
            rl = ctx.choose('rel', 2)
            data['replay']['rel'] = rl
            if rl:
                chk(E.step([l0, l1], [t0, t1], 1), [l0, l0, l1], [t0, t1], 'step', 0)
            else:
                chk(E.step([l0, l1], [t0, t1]), [l0, l0, l1], [t0, t1], 'step', None)
        elif which in ('pairs', 'xyc'):
            x0, x1, x2 = P('x0'), P('x1'), P('x2')
            y0, y1, y2 = P('y0'), P('y1'), P('y2')
            ctx.assume(z3.And(x0.e < x1.e, x1.e < x2.e))
            data['replay']['names'] = ['x0', 'x1', 'x2', 'y0', 'y1', 'y2']
            order = list(itertools.permutations(range(3)))[ctx.choose('order', 6)]
            data['replay']['order'] = list(order)
            pts = [[x0, y0], [x1, y1], [x2, y2]]
            if which == 'pairs':
                e = E.pairs([list(pts[i]) for i in order], 'sin')
                chk(e, [y0, y1, y2], [x1 - x0, x2 - x1], 'sin')
            else:
                cs = ['sin', 'exp', 'lin']
                e = E.xyc([list(pts[i]) + [cs[i]] for i in order])
                chk(e, [y0, y1, y2], [x1 - x0, x2 - x1], ['sin', 'exp'])
            _eq(ctx, e.offset, x0, f'{which}: offset is the first time', data)
        elif which == 'xyc-jump':
            # two control points at the same time (a vertical jump) keep the order in which they were given
            x0, x1, x2 = P('x0'), P('x1'), P('x2')
            y0, y1, y2, y3 = P('y0'), P('y1'), P('y2'), P('y3')
            ctx.assume(z3.And(x0.e < x1.e, x1.e < x2.e))
            data['replay']['names'] = ['x0', 'x1', 'x2', 'y0', 'y1', 'y2', 'y3']
            e = E.xyc([[x0, y0, 'lin'], [x1, y1, 'lin'], [x1, y2, 'lin'], [x2, y3, 'lin']])
            chk(e, [y0, y1, y2, y3], [x1 - x0, 0, x2 - x1], 'lin')
    return {'law': 'constructor', 'which': which}


CUTOFF_CURVES = ['lin', 'exp', 'exponential', 'sin', 'linear']
CONSTRUCTORS = ['triangle', 'sine', 'perc', 'linen', 'adsr', 'dadsr', 'asr', 'cutoff', 'step', 'pairs', 'xyc', 'xyc-jump']


# ------------------------------------------------------------------ (C) client-side evaluation

def law_at(ctx, shapes):
    """shapes: tuple of shape kinds per segment"""
    env = _env()
    n = len(shapes)
    levels = [ctx.real(f'L{i}') for i in range(n + 1)]
    if 'cub' in shapes:
        times = [1.0, 2.0, 0.5][:n]      # a cubic under a symbolic division does not finish in z3: durations fixed
    else:
        times = [ctx.real(f'T{i}', 0, None, lo_strict=True) for i in range(n)]
    curves = []
    for i, sh in enumerate(shapes):
        if sh == 'num':
            curves.append(ctx.real(f'C{i}'))
        else:
            curves.append(sh)
        if sh == 'exp':       # documented domain of the exponential shape: same sign, non-zero
            a, b = levels[i].e, levels[i + 1].e
            ctx.assume(z3.Or(z3.And(a > 0, b > 0), z3.And(a < 0, b < 0)))
        if sh in ('sqr', 'cub'):
            ctx.assume(z3.And(levels[i].e >= 0, levels[i + 1].e >= 0))
    where = ctx.choose('where', 2 * n + 2)      # breakpoint k (0..n), inside segment k (0..n-1), after the end
    names = [f'L{i}' for i in range(n + 1)] + [f'T{i}' for i in range(n)] + [f'C{i}' for i in range(n)] + ['t', 'off']
    data = {'key': f'env:at:{"+".join(shapes)}', 'replay': {'mode': 'nrt', 'kind': 'at', 'shapes': list(shapes),
                                                            'where': where, 'names': names}}
    # the envelope may start at any time (offset): breakpoint k is at offset + t_0 + .. + t_{k-1}
    off = ctx.real('off', -5, 5)
    tk = [off]
    for d in times:
        tk.append(tk[-1] + d)
    with symx.shims():
        e = env.Env(list(levels), list(times), curves, offset=off)
        if where <= n:
            k = where
            t = tk[k]
            v = e._at(t)
            if k < n and shapes[k] == 'step':
                # a step segment jumps to its target at its start: either neighbouring level is "the level"
                ctx.prove(z3.Or(R(v) == R(levels[k]), R(v) == R(levels[k + 1])),
                          f'_at(breakpoint {k}) is not a level of that breakpoint', data)
            else:
                ctx.prove(R(v) == R(levels[k]), f'_at(breakpoint {k}) != level {k}', data)
            ctx.note('breakpoint')
        elif where <= 2 * n:
            k = where - n - 1
            t = ctx.real('t')
            ctx.assume(z3.And(t.e > R(tk[k]), t.e < R(tk[k + 1])))
            v = e._at(t)
            lo = z3.If(levels[k].e <= levels[k + 1].e, levels[k].e, levels[k + 1].e)
            hi = z3.If(levels[k].e <= levels[k + 1].e, levels[k + 1].e, levels[k].e)
            ctx.prove(z3.And(R(v) >= lo, R(v) <= hi), f'_at inside segment {k} ({shapes[k]}) leaves the neighbouring '
                      'levels', data)
            ctx.note('inside:' + shapes[k])
        else:
            t = ctx.real('t')
            ctx.assume(t.e >= R(tk[n]))
            v = e._at(t)
            ctx.prove(R(v) == R(levels[n]), '_at after the end != last level', data)
            ctx.note('after')
    return {'law': 'at', 'shapes': list(shapes), 'where': where}


DERIVED = ['range', 'exprange', 'duration', 'pairs-twice']        # curverange: same code path, its kernel needs a 3-argument pow the shim lacks


def _derive(E, kind, levels, times, lo, hi, pts=None):
    """-> (object whose encodings are asked for, a fresh envelope built from that object's public fields)"""
    e = E(list(levels), list(times), 'lin')
    e._envgen_format()
    e._interpolation_format()           # both encodings are cached now
    if kind == 'range':
        r = e.range(lo, hi)
    elif kind == 'exprange':
        r = e.exprange(lo, hi)
    elif kind == 'curverange':
        r = e.curverange(lo, hi, 2)
    else:
        e.duration = hi
        r = e
    fresh = E(list(r.levels), list(r.times), r.curves, r.release_node, r.loop_node, r.offset)
    return r, fresh


def law_derived(ctx, dk):
    """an envelope derived from one whose encodings were already computed (range / exprange / curverange copies, a new
    duration) is encoded like a fresh envelope with the same levels, times and curves; Env.pairs leaves the caller's
    points alone and accepts them a second time"""
    env = _env()
    E = env.Env
    kind = DERIVED[dk]
    names = ['L0', 'L1', 'L2', 'T0', 'T1', 'lo', 'hi']
    data = {'key': f'env:derived:{kind}', 'replay': {'mode': 'nrt', 'kind': 'derived', 'which': kind, 'names': names}}
    if kind == 'pairs-twice':
        x = [ctx.real(f'L{i}') for i in range(3)]
        ctx.assume(z3.And(x[0].e < x[1].e, x[1].e < x[2].e))
        pts = [[x[0], 1.0], [x[1], 2.0], [x[2], 0.5]]
        with symx.shims():
            a = E.pairs(pts, 'sin')
            if [len(p_) for p_ in pts] != [2, 2, 2]:
                raise Violation(f'Env.pairs changed the caller\'s control points: {[len(p_) for p_ in pts]} entries each',
                                None, data)
            b = E.pairs(pts, 'sin')
        for u, w in zip(list(a.levels) + list(a.times), list(b.levels) + list(b.times)):
            _eq(ctx, u, w, 'Env.pairs called twice with the same points gives different envelopes', data)
        return {'law': 'derived', 'which': kind}
    levels = [ctx.real(f'L{i}', 0.125, 100) for i in range(3)]
    ctx.assume(z3.And(levels[0].e < levels[1].e, levels[1].e != levels[2].e, levels[0].e < levels[2].e))
    times = [ctx.real(f'T{i}', 0.125, 100) for i in range(2)]
    lo, hi = ctx.real('lo', 0.125, 50), ctx.real('hi', 51, 100)
    with symx.shims():
        r, fresh = _derive(E, kind, levels, times, lo, hi)
        got, want = r._envgen_format(), fresh._envgen_format()
        got2, want2 = r._interpolation_format(), fresh._interpolation_format()
    for g_, w_, nm in ((got, want, 'EnvGen'), (got2, want2, 'IEnvGen')):
        if len(g_) != 1 or len(w_) != 1 or len(g_[0]) != len(w_[0]):
            raise Violation(f'{kind}: {nm} encoding has a different shape than a fresh envelope with the same fields', None,
                            data)
        for k, (u, w) in enumerate(zip(g_[0], w_[0])):
            _eq(ctx, u, w, f'{kind}: entry {k} of the {nm} encoding is not the one of a fresh envelope with the same '
                'levels / times (stale encoding kept from before the change)', data)
    return {'law': 'derived', 'which': kind}


def guarded(f, kind, replay):
    """documented inputs must not make the library raise"""
    def h(ctx):
        try:
            return f(ctx)
        except (PathAbort, Violation, Inconclusive):
            raise
        except Exception as e:
            import traceback
            tb = traceback.extract_tb(e.__traceback__)
            inlib = [fr for fr in tb if '/sc3/' in fr.filename]
            if not inlib:
                raise
            rec = dict(replay(ctx))
            rec['raises'] = True
            raise Violation(f'{kind}: documented input refused with {type(e).__name__}: {e}', None,
                            {'key': f'env:raises:{kind}:{type(e).__name__}:{str(e)[:40]}', 'replay': rec})
    return h


def job(j):
    if j['law'] == 'layout':
        h = guarded(lambda c: law_layout(c, j['n'], j['ck']), 'Env',
                    lambda c: {'mode': 'nrt', 'kind': 'raises-layout', 'n': j['n'], 'ck': j['ck'],
                               'choices': {k: v[1] for k, v in c.vars.items() if isinstance(v, tuple)}, 'names': []})
    elif j['law'] == 'constructor':
        h = guarded(lambda c: law_constructor(c, j['which']), j['which'],
                    lambda c: {'mode': 'nrt', 'kind': 'constructor', 'which': j['which'], 'names': [],
                               'rel': c.vars.get('rel', (0, 0))[1] if isinstance(c.vars.get('rel'), tuple) else 0})
    elif j['law'] == 'derived':
        h = guarded(lambda c: law_derived(c, j['dk']), 'derived',
                    lambda c: {'mode': 'nrt', 'kind': 'derived', 'which': DERIVED[j['dk']], 'names': []})
    else:
        h = guarded(lambda c: law_at(c, tuple(j['shapes'])), 'Env._at',
                    lambda c: {'mode': 'nrt', 'kind': 'at', 'shapes': list(j['shapes']), 'where': 0, 'names': []})
    st = explore(h, max_paths=100000, timeout_ms=4000, stop_on_violation=False)
    d = st.as_dict()
    seen, keep = set(), []
    for v in d['violations']:
        k = v['data']['key'] + ':' + v['what'][:40]
        if v['data']['key'] in seen:
            continue
        seen.add(v['data']['key'])
        rec = v['data']['replay']
        rec['values'] = {n: v['model'].get(n) for n in rec.get('names', []) if n in v['model']}
        rec['what'] = v['what']
        keep.append(v)
    d['violations'] = keep
    # a constructor that raises on documented arguments is a violation too (reported by the harness error path)
    return d


# ------------------------------------------------------------------ replay

def replay(rec):
    env = _env()
    E = env.Env
    v = rec.get('values', {})
    g = lambda n, d=1.0: float(v[n]) if v.get(n) is not None else d    # noqa
    if rec.get('kind') == 'derived':
        kind = rec['which']
        try:
            if kind == 'pairs-twice':
                pts = [[0.0, 1.0], [1.0, 2.0], [2.5, 0.5]]
                a = E.pairs(pts, 'sin')
                if [len(p_) for p_ in pts] != [2, 2, 2]:
                    return f'Env.pairs changed the caller\'s control points: {pts}'
                b = E.pairs(pts, 'sin')
                return None if (list(a.levels), list(a.times)) == (list(b.levels), list(b.times)) else \
                    'Env.pairs called twice with the same points gives different envelopes'
            levels = [g('L0', 1.0), g('L1', 2.0), g('L2', 1.5)]
            times = [g('T0', 1.0), g('T1', 2.0)]
            r, fresh = _derive(E, kind, levels, times, g('lo', 10.0), g('hi', 60.0))
            for nm in ('_envgen_format', '_interpolation_format'):
                a, b = getattr(r, nm)()[0], getattr(fresh, nm)()[0]
                if len(a) != len(b) or any(abs(float(x) - float(y)) > 1e-9 * (1 + abs(float(y))) for x, y in zip(a, b)):
                    return f'{kind} of Env({levels}, {times}) after its encodings were computed: {nm}() gives ' \
                           f'{list(a)}, a fresh envelope with the same levels {list(r.levels)} and times ' \
                           f'{list(r.times)} gives {list(b)}'
        except Exception as ex:
            return f'{kind}: raised {type(ex).__name__}: {ex}'
        return None
    tol = lambda a, b: abs(a - b) <= 1e-6 * (1 + abs(a) + abs(b))     # noqa
    if rec['kind'] == 'raises-layout':
        n, ch = rec['n'], rec['choices']
        names = sorted(set(SHAPES))
        kind = CURVE_KINDS[rec['ck']]
        if kind == 'name':
            curves = names[ch.get('shape', 0)]
        elif kind in ('names-short',):
            curves = [REP_NAMES[ch.get(f'shape{i}', 0)] for i in range(ch.get('ncurves', 0) + 1)]
        elif kind == 'mixed-full':
            curves = [REP_NAMES[ch.get(f'shape{i}', 0)] if ch.get(f'isname{i}', 0) else -2.0 for i in range(n)]
        else:
            curves = -2.0
        try:
            E([float(i) for i in range(n + 1)], [1.0] * n, curves)._envgen_format()
        except Exception as ex:
            return f'Env(levels, times, {curves!r}) raised {type(ex).__name__}: {ex}'
        return None
    if rec['kind'] == 'layout':
        n, nt = rec['n'], rec['nt']
        levels = [g(f'L{i}', float(i)) for i in range(n + 1)]
        times = [g(f'T{i}', 1.0 + i) for i in range(nt)]
        cl = [c if c is not None else g(f'C{i}', -2.0 - i) for i, c in enumerate(rec['curves'])]
        kind = rec['curve_kind']
        curves = cl[0] if kind in ('name', 'number') else cl
        if kind == 'default':
            e = E(levels, times, release_node=rec['rel'], loop_node=rec['loop'])
            cl = ['lin']
        else:
            e = E(levels, times, curves, rec['rel'], rec['loop'])
        if rec.get('interp_first'):
            e._interpolation_format()
        try:
            a = e._envgen_format()[0]
        except Exception as ex:
            return f'_envgen_format raises {type(ex).__name__}: {ex}'
        exp = [levels[0], n, -99 if rec['rel'] is None else rec['rel'], -99 if rec['loop'] is None else rec['loop']]
        for i in range(n):
            c = cl[i % len(cl)]
            exp += [levels[i + 1], times[i % nt], SHAPES[c] if isinstance(c, str) else 5, 0 if isinstance(c, str) else c]
        if len(a) != len(exp) or any(not tol(float(x), float(y)) for x, y in zip(a, exp)):
            return f'Env({levels}, {times}, {curves!r}, {rec["rel"]}, {rec["loop"]})._envgen_format() = {list(a)}, ' \
                   f'expected {exp}'
        return None
    if rec['kind'] == 'constructor':
        w = rec['which']
        try:
            if w == 'triangle':
                e, L, T = E.triangle(g('dur'), g('level')), [0, g('level'), 0], [g('dur') / 2] * 2
            elif w == 'sine':
                e, L, T = E.sine(g('dur'), g('level')), [0, g('level'), 0], [g('dur') / 2] * 2
            elif w == 'perc':
                e, L, T = E.perc(g('attack'), g('release'), g('level'), g('curve')), [0, g('level'), 0], \
                    [g('attack'), g('release')]
            elif w == 'linen':
                e, L, T = E.linen(g('attack'), g('sustain'), g('release'), g('level')), \
                    [0, g('level'), g('level'), 0], [g('attack'), g('sustain'), g('release')]
            elif w == 'adsr':
                b, p, s = g('bias', 0.0), g('peak'), g('sus', 0.5)
                e = E.adsr(g('attack'), g('decay'), s, g('release'), p, g('curve'), b)
                L, T = [b, p + b, p * s + b, b], [g('attack'), g('decay'), g('release')]
            elif w == 'dadsr':
                b, p, s = g('bias', 0.0), g('peak'), g('sus', 0.5)
                e = E.dadsr(g('delay'), g('attack'), g('decay'), s, g('release'), p, g('curve'), b)
                L, T = [b, b, p + b, p * s + b, b], [g('delay'), g('attack'), g('decay'), g('release')]
            elif w == 'asr':
                e = E.asr(g('attack'), g('sus'), g('release'), g('curve'))
                L, T = [0, g('sus'), 0], [g('attack'), g('release')]
            elif w == 'cutoff':
                cv = rec.get('cutoff_curve', 'lin')
                e, L, T = E.cutoff(g('release'), g('level'), cv), [g('level'), 1e-05 if cv in ('exp', 'exponential') else 0], \
                    [g('release')]
            elif w == 'step':
                if rec.get('rel'):
                    e = E.step([g('l0'), g('l1')], [g('t0'), g('t1')], 1)
                else:
                    e = E.step([g('l0'), g('l1')], [g('t0'), g('t1')])
                L, T = [g('l0'), g('l0'), g('l1')], [g('t0'), g('t1')]
                if e.release_node != (0 if rec.get('rel') else None):
                    return f'step: release node {e.release_node}'
            elif w == 'xyc-jump':
                xs = sorted([g('x0', 0.0), g('x1', 1.0), g('x2', 2.0)])
                ys = [g('y0'), g('y1', 2.0), g('y2', 0.5), g('y3')]
                if ys[1] == ys[2]:
                    ys[2] = ys[1] - 1.0        # any two different levels at the jump show the order
                e = E.xyc([[xs[0], ys[0], 'lin'], [xs[1], ys[1], 'lin'], [xs[1], ys[2], 'lin'], [xs[2], ys[3], 'lin']])
                L, T = ys, [xs[1] - xs[0], 0.0, xs[2] - xs[1]]
            else:
                xs = sorted([g('x0', 0.0), g('x1', 1.0), g('x2', 2.0)])
                ys = [g('y0'), g('y1'), g('y2')]
                pts = [[xs[i], ys[i]] for i in range(3)]
                order = rec.get('order', [0, 1, 2])
                if w == 'pairs':
                    e = E.pairs([list(pts[i]) for i in order], 'sin')
                else:
                    e = E.xyc([list(pts[i]) + [['sin', 'exp', 'lin'][i]] for i in order])
                L, T = ys, [xs[1] - xs[0], xs[2] - xs[1]]
        except Exception as ex:
            return f'constructor {w} raised {type(ex).__name__}: {ex}'
        if len(e.levels) != len(L) or len(e.times) != len(T) or \
                any(not tol(float(a), float(b)) for a, b in zip(list(e.levels) + list(e.times), L + T)):
            return f'{w}: levels {e.levels} times {e.times}, documented {L} {T}'
        if w in ('pairs', 'xyc') and not tol(float(e.offset), float(min(xs))):
            return f'{w}: control points {[pts[i] for i in order]} give offset {e.offset}; the envelope starts at the ' \
                   f'earliest point, {min(xs)}'
        if w == 'xyc':
            cv = list(e.curves) if isinstance(e.curves, (list, tuple)) else [e.curves]
            if cv[:2] != ['sin', 'exp']:
                return f"xyc: segment curves {cv}, documented ['sin', 'exp'] (each segment takes the curve of the " \
                       f"point it starts from)"
        return None
    shapes, where = rec['shapes'], rec['where']
    n = len(shapes)
    levels = [g(f'L{i}', 1.0 + i) for i in range(n + 1)]
    times = [1.0, 2.0, 0.5][:n] if 'cub' in shapes else [g(f'T{i}', 1.0) for i in range(n)]
    curves = [g(f'C{i}', -3.0) if s == 'num' else s for i, s in enumerate(shapes)]
    off = g('off', 0.0)
    try:
        e = E(levels, times, curves, offset=off)
        e._at(0.0)
    except Exception as ex:
        return f'Env({levels}, {times}, {curves})._at(0.0) raised {type(ex).__name__}: {ex}'
    if rec.get('raises'):
        return None
    tk = [off]
    for d in times:
        tk.append(tk[-1] + d)
    if where <= n:
        val = e._at(tk[where])
        ok = tol(val, levels[where]) or (where < n and shapes[where] == 'step' and tol(val, levels[where + 1]))
        return None if ok else f'Env({levels},{times},{curves})._at({tk[where]}) = {val}, level at breakpoint ' \
                               f'{where} is {levels[where]}'
    if where <= 2 * n:
        k = where - n - 1
        t = g('t', (tk[k] + tk[k + 1]) / 2)
        val = e._at(t)
        lo, hi = min(levels[k], levels[k + 1]), max(levels[k], levels[k + 1])
        return None if lo - 1e-9 <= val <= hi + 1e-9 else \
            f'Env({levels},{times},{curves})._at({t}) = {val} outside [{lo},{hi}]'
    t = g('t', tk[n] + 1)
    val = e._at(t)
    return None if tol(val, levels[n]) else f'Env({levels},{times},{curves})._at({t}) = {val}, last level {levels[n]}'


# ------------------------------------------------------------------ main

def main(tier, seed):
    env = _env()
    chk = Check(PID, 'other', tier, seed)
    E = env.Env
    chk.functions = src_hash([E.__init__, E._envgen_format, E._at, E._env_at, E._shape_number, E._curve_value,
                              E.triangle, E.sine, E.perc, E.linen, E.adsr, E.dadsr, E.asr, E.cutoff, E.step, E.pairs,
                              E.xyc, E.range, E.exprange, E.curverange, E._interpolation_format])
    nmax = 3 if tier == 'quick' else 4
    jobs = [dict(law='layout', n=n, ck=ck) for n in range(1, nmax + 1) for ck in range(len(CURVE_KINDS))]
    jobs += [dict(law='constructor', which=w) for w in CONSTRUCTORS]
    jobs += [dict(law='derived', dk=k) for k in range(len(DERIVED))]
    jobs += [dict(law='at', shapes=[s]) for s in AT_SHAPES]
    jobs += [dict(law='at', shapes=list(p)) for p in itertools.product(AT_SHAPES, repeat=2)]
    if tier == 'thorough':
        jobs += [dict(law='at', shapes=list(p)) for p in itertools.product(AT_SHAPES, repeat=3)]
    for r in run_jobs('vf.props.c19', 'job', jobs, 'nrt'):
        chk.add('envelope', r)
    chk.require_notes('envelope', ['breakpoint', 'after'] + ['inside:' + s for s in AT_SHAPES])
    chk.bounds = {'segments_layout': nmax, 'segments_at': 2 if tier == 'quick' else 3,
                  'curve_specs': CURVE_KINDS, 'constructors': CONSTRUCTORS,
                  'outside': 'multichannel (nested list) envelopes; times == 0; exp segments whose levels cross zero, '
                             'sqr/cub segments with negative levels (outside the shapes\' documented domain); '
                             'IEnvGen format; EnvGen inputs inside definition bytes (see C01/C02); circle/cyclic'}
    chk.assumptions = ['floats are exact reals', 'uninterpreted kernels with axioms: exp monotone with exp(0)=1, '
                       '|sin|,|cos| <= 1 with values at 0, pi/2, pi and sin >= 0 on [0, pi], sqrt/cbrt inverse of '
                       'square/cube and monotone, a^b between 1 and a for 0<=b<=1; the literal 0.3333333 denotes 1/3']
    return chk.finish(explanation='layout, constructor and evaluation laws as z3 validity queries over the terms '
                                  'computed by the real Env methods')
