"""C17 -- client objects speak the server command protocol and keep ids consistent.

NRT process; everything the client objects hand to the OSC interface is recorded (harness-side wrapper of the
interface's send_msg / send_bundle).  Histories of Synth / Group / ParGroup creation (every add action, node /
group / server targets), set / setn / map / fill / run / release / move / free, Buffer allocation (single and a
SYMBOLIC number of consecutive buffers), free, double free, free_all, Bus allocation / free, each inside or outside
server.bind() with an exception raised at a symbolic point of the block.  Every recorded command is checked against
a command reference table transcribed from the Server Command Reference (name, argument count pattern, types) and
against an id ledger: ids mentioned were allocated to this client (or are the root / default groups), creation
carries the object's own id, freeing emits the matching command for each owned id exactly once and the allocator
takes the id back, a bind() block reaches the interface as one bundle in issue order on normal exit and not at all
if it raises.
"""
import itertools
import z3
from .. import symx
from ..symx import explore, Violation, PathAbort, SymReal, SymInt, Inconclusive
from ..run import Check, run_jobs, src_hash

PID = 'C17'


def N():
    from sc3.synth import node as nod, buffer as buf, bus, server as srv
    from sc3.base import main as _m, netaddr as nad
    return dict(nod=nod, buf=buf, bus=bus, srv=srv, main=_m.main, nad=nad)


# --- Server Command Reference (argument schemas).  i int, f number, s string, c control (int or str), v control value
#     (number, or a bus-mapping string like 'c3' / 'a0'), b bytes/None (completion message).  (head, repeated group)
def _is(kind, x):
    if kind == 'i':
        return isinstance(x, (int, SymInt)) and not isinstance(x, bool)
    if kind == 'f':
        return isinstance(x, (int, float, SymInt, SymReal)) and not isinstance(x, bool)
    if kind == 's':
        return isinstance(x, str)
    if kind == 'c':
        return (isinstance(x, (int, SymInt)) and not isinstance(x, bool)) or isinstance(x, str)
    if kind == 'v':
        return _is('f', x) or (isinstance(x, str) and len(x) > 1 and x[0] in 'ca' and x[1:].isdigit()) or x in '[]' \
            if isinstance(x, str) else _is('f', x)
    if kind == 'b':
        return x is None or isinstance(x, (bytes, bytearray, list))
    return False


SCHEMA = {
    '/s_new': ('sici', 'cv'),        # defname, id, add action, target, then control/value pairs (arrays allowed)
    '/g_new': ('', 'iii'), '/p_new': ('', 'iii'),
    '/n_free': ('', 'i'), '/n_run': ('', 'ii'), '/n_set': ('i', 'cv'), '/n_setn': ('i', None),
    '/n_fill': ('i', 'cif'), '/n_map': ('i', 'ci'), '/n_mapn': ('i', 'cii'), '/n_mapa': ('i', 'ci'),
    '/n_mapan': ('i', 'cii'), '/n_before': ('', 'ii'), '/n_after': ('', 'ii'), '/g_head': ('', 'ii'),
    '/g_tail': ('', 'ii'), '/g_freeAll': ('', 'i'), '/g_deepFree': ('', 'i'), '/n_trace': ('', 'i'),
    '/b_alloc': ('iii', 'b'), '/b_free': ('i', 'b'), '/b_zero': ('i', 'b'), '/c_set': ('', 'if'),
    '/c_setn': ('i', None), '/c_fill': ('', 'iif'), '/n_query': ('', 'i'), '/d_recv': (None, None),
}


def conforms(msg):
    name = msg[0]
    if name not in SCHEMA:
        return f'unknown command {name}'
    head, rep = SCHEMA[name]
    args = list(msg[1:])
    if head is None:
        return None
    if len(args) < len(head):
        return f'{name}: {len(args)} arguments, at least {len(head)} required'
    for k, x in zip(head, args):
        if not _is(k, x):
            return f'{name}: argument {x!r} is not of kind {k}'
    rest = args[len(head):]
    if name in ('/s_new', '/n_set'):
        # control / value pairs; values may be arrays between '[' and ']'
        i = 0
        while i < len(rest):
            if not _is('c', rest[i]):
                return f'{name}: control {rest[i]!r}'
            i += 1
            if i >= len(rest):
                return f'{name}: control without value'
            if rest[i] == '[':
                j = rest.index(']', i) if ']' in rest[i:] else -1
                if j < 0:
                    return f'{name}: unbalanced array'
                i = j + 1
            else:
                if not _is('v', rest[i]):
                    return f'{name}: value {rest[i]!r}'
                i += 1
        return None
    if name in ('/n_setn', '/c_setn'):
        i = 0
        if name == '/c_setn':
            rest = args
        while i < len(rest):
            if i + 1 >= len(rest) or not _is('c', rest[i]) or not _is('i', rest[i + 1]):
                return f'{name}: malformed (control, count, values...) group'
            n = rest[i + 1]
            if isinstance(n, SymInt):
                return None
            if len(rest) < i + 2 + n:
                return f'{name}: {n} values announced, fewer given'
            i += 2 + n
        return None
    if rep is None:
        return None
    if name in ('/b_alloc', '/b_free', '/b_zero'):
        if len(rest) > 1 or (rest and not _is('b', rest[0])):
            return f'{name}: trailing arguments {rest!r}'
        return None
    if not rest and head == '':
        return f'{name}: no arguments'
    if len(rest) % len(rep):
        return f'{name}: {len(rest)} repeated arguments is not a multiple of {len(rep)}'
    for i, x in enumerate(rest):
        if not _is(rep[i % len(rep)], x):
            return f'{name}: argument {x!r} is not of kind {rep[i % len(rep)]}'
    return None


class Recorder:
    def __init__(self, main):
        self.main = main
        self.sent = []      # ('msg', [..]) | ('bundle', time, [[..], ..])

    def __enter__(self):
        osci = self.main._osc_interface
        self.saved = (osci.__dict__.get('send_msg'), osci.__dict__.get('send_bundle'))
        self.targets = []

        def send_msg(target, *args):
            self.targets.append(target)
            self.sent.append(('msg', list(args)))

        def send_bundle(target, time, *els):
            self.targets.append(target)
            self.sent.append(('bundle', time, [list(e) for e in els]))
        osci.send_msg, osci.send_bundle = send_msg, send_bundle
        return self

    def __exit__(self, *a):
        osci = self.main._osc_interface
        for k, v in zip(('send_msg', 'send_bundle'), self.saved):
            if v is None:
                osci.__dict__.pop(k, None)
            else:
                setattr(osci, k, v)
        return False

    def commands(self, start=0):
        out = []
        for s in self.sent[start:]:
            if s[0] == 'msg':
                out.append(s[1])
            else:
                out.extend(s[2])
        return out


OPS = ['synth', 'group', 'pargroup', 'set', 'setn', 'map', 'fill', 'run', 'release', 'move', 'free', 'buffer',
       'buffers', 'buffree', 'buffree-twice', 'freeall', 'bus', 'busfree', 'busset', 'sync', 'subbus']
LAST_OPS = ['free', 'buffree', 'buffree-twice', 'busfree', 'freeall', 'move', 'release', 'synth', 'buffer']
ACTIONS = ['addToHead', 'addToTail', 'addBefore', 'addAfter', 'addReplace']


def _plain(x):
    if isinstance(x, (list, tuple)):
        return [_plain(y) for y in x]
    if isinstance(x, (SymReal, SymInt)):
        return repr(x)
    return x


tier_deep = [False]


class Boom(Exception):
    pass


def scenario(ctx, nops, first, use_bind):
    m = N()
    nod, buf, bus, srv, main = m['nod'], m['buf'], m['bus'], m['srv'], m['main']
    server = srv.Server.default
    rec = {'mode': 'rt' if use_bind else 'nrt', 'nops': nops, 'first': first, 'bind': use_bind, 'deep': tier_deep[0]}
    hist = []

    def data(sub):
        return {'key': f'c17:{sub}', 'replay': dict(rec, sub=sub, history=_plain(hist))}
    rt = not hasattr(main, 'reset')
    if not rt:
        main.reset()
    server._new_allocators()
    nodes, bufs, buses = [], [], []
    ledger_nodes = {0, server.default_group.node_id} | {g.node_id for g in server._default_groups}
    live_bufs = set()
    freed_bufs = []
    raise_at = ctx.idx('raise_at', 0, nops) if use_bind == 2 else None
    ra = int(raise_at) if raise_at is not None else None
    with Recorder(main) as R, symx.shims():
        ctxmgr = server.bind() if use_bind else None
        start = len(R.sent)
        raised = False
        segments, syncs = [[]], []
        try:
            if ctxmgr is not None:
                ctxmgr.__enter__()
            try:
                for i in range(nops):
                    if ra is not None and i == ra:
                        raise Boom('failure inside the bind block')
                    if i < len(first):
                        oi = first[i]
                    elif i >= 3:
                        # thorough tier: the fourth operation is one that releases or moves something
                        oi = OPS.index(LAST_OPS[ctx.choose(f'op{i}', len(LAST_OPS))])
                    else:
                        oi = ctx.choose(f'op{i}', len(OPS))
                    op = OPS[oi]
                    if op == 'sync':
                        if not use_bind:
                            raise PathAbort('sync is exercised inside bind()')
                        do_sync(m, server, R, segments, syncs, hist, data)
                        continue
                    before = len(R.commands()) if not use_bind else len(ctxmgr._bundle)
                    do_op(ctx, m, server, op, i, nodes, bufs, buses, ledger_nodes, live_bufs, freed_bufs, hist, data)
                    cmds = R.commands()[before:] if not use_bind else \
                        [list(x) for x in ctxmgr._bundle[before:] if isinstance(x[0], str)]
                    segments[-1].extend(cmds)
                    check_cmds(ctx, cmds, hist, ledger_nodes, live_bufs | set(freed_bufs), data, buses)
            except Boom:
                raised = True
                if ctxmgr is not None:
                    ctxmgr.__exit__(Boom, Boom('x'), None)
            else:
                if ctxmgr is not None:
                    ctxmgr.__exit__(None, None, None)
            left_proxied = ctxmgr is not None and server._addr is not ctxmgr._save_addr
        finally:
            if server._addr is not getattr(ctxmgr, '_save_addr', server._addr):
                server._addr = ctxmgr._save_addr
        if use_bind:
            if left_proxied:
                what = 'that raised ' if raised else ''
                raise Violation(f'after a bind() block {what}the server still sends through the bundling proxy: later '
                                f'commands never reach the wire (history {hist})', None, data('bind-restore'))
            # a command issued after the block goes out on its own
            n_before = len(R.sent)
            post = nod.Group(server)
            after = R.sent[n_before:]
            if [a_[0] for a_ in after] != ['msg'] or after[0][1][:2] != ['/g_new', post.node_id]:
                raise Violation(f'a command issued after the bind() block did not reach the wire on its own: {after}',
                                None, data('bind-after'))
            sent = R.sent[start:n_before]
            expect = []
            for seg, sid in zip(segments, syncs):
                if seg:
                    expect.append(seg)
                expect.append([['/sync', sid]])
            if not raised and segments[-1]:
                expect.append(segments[-1])
            got = [s_[2] if s_[0] == 'bundle' else ('msg', s_[1]) for s_ in sent]
            if got != expect:
                what = 'that raised ' if raised else ''
                raise Violation(f'a bind() block {what}put {[[c[0] for c in g] for g in got]} on the wire; expected the '
                                f'bundles {[[c[0] for c in g] for g in expect]} (one bundle per segment between syncs, '
                                f'issue order, nothing after an exception) (history {hist})', None,
                                data('bind-raise' if raised else 'bind-wire'))
    if not rt:
        main.reset()
    ctx.obligations += 1
    ctx.discharged += 1
    ctx.note('bind%d' % use_bind)
    for h in hist:
        ctx.note('op:' + h[0])
    return {'history': _plain(hist), 'bind': use_bind}


class _WakeClock:
    def __init__(self):
        self.woken = []

    def sched(self, delta, item):
        self.woken.append(item)


def do_sync(m, server, R, segments, syncs, hist, data):
    """`yield from server.addr.sync()` inside the bind block, run in a real Routine; the harness plays the server:
    it answers the /sync it sees on the wire with /synced through the interface's receive functions."""
    from sc3.base import stream as stm
    main = m['main']
    addr = server.addr
    hist.append(['sync'])

    def body(inval):
        yield from addr.sync()
    r = stm.Routine(body)
    clock = _WakeClock()
    r._clock = clock
    n0 = len(R.sent)
    v = next(r)
    new = R.sent[n0:]
    ids = [c[1] for s_ in new if s_[0] == 'bundle' for c in s_[2] if c[0] == '/sync']
    if len(ids) != 1:
        raise Violation(f'sync inside bind() sent {len(ids)} /sync commands', None, data('sync-count'))
    if v != 'hang':
        raise Violation(f'sync inside bind() did not wait for the reply (yielded {v!r})', None, data('sync-wait'))
    for f in list(type(main._osc_interface)._recv_functions):
        f(['/synced', ids[0]], 0.0, server._save_addr if hasattr(server, '_save_addr') else addr._save_addr, 57120)
    if clock.woken != [r]:
        raise Violation('the /synced reply did not wake the routine waiting in sync', None, data('sync-wake'))
    try:
        next(r)
    except StopIteration:
        pass
    syncs.append(ids[0])
    segments.append([])


def do_op(ctx, m, server, op, i, nodes, bufs, buses, ledger_nodes, live_bufs, freed_bufs, hist, data):
    nod, buf, bus = m['nod'], m['buf'], m['bus']

    def pick(lst, name):
        if not lst:
            raise PathAbort('nothing to operate on')
        return lst[ctx.choose(f'{name}{i}', len(lst))]
    if op in ('synth', 'group', 'pargroup'):
        ai = ctx.choose(f'action{i}', len(ACTIONS))
        tk = ctx.choose(f'target{i}', 3)          # 0 server/default group, 1 an existing node, 2 root node id 0
        if tk == 1 and not nodes:
            raise PathAbort('no node')
        if ACTIONS[ai] in ('addBefore', 'addAfter', 'addReplace') and tk != 1:
            raise PathAbort('relative add actions need a node target')
        target = [None, None, 0][tk] if tk != 1 else nodes[ctx.choose(f'tnode{i}', len(nodes))]
        if tk == 1 and ACTIONS[ai] in ('addToHead', 'addToTail') and not isinstance(target, nod.AbstractGroup):
            raise PathAbort('head/tail need a group')
        nxt = server._node_allocator._temp
        val = ctx.real(f'val{i}', -10, 10)
        action_arg = ACTIONS[ai]
        if op == 'synth':
            args = ['freq', val, 'amps', [val, 0.5]]
            variant = ctx.choose(f'variant{i}', 3) if (i == 0 or tier_deep[0]) else 0
            if variant == 1:
                args = {'freq': val, 'amps': [val, 0.5]}
            if tk == 0 and variant == 2:
                target = server
            o = nod.Synth('default', args, target, action_arg)
        elif op == 'group':
            o = nod.Group(target, action_arg)
        else:
            o = nod.ParGroup(target, action_arg)
        hist.append([op, ACTIONS[ai], tk])
        if o.node_id != nxt:
            raise Violation(f'{op} got node id {o.node_id}, the allocator\'s next id was {nxt}', None, data('own-id'))
        ledger_nodes.add(o.node_id)
        nodes.append(o)
        if op == 'synth':
            hist[-1].append(('expect-args', '/s_new', ['default', o.node_id, ai, 0 if tk == 2 else (
                target.node_id if tk == 1 else server.default_group.node_id), 'freq', val, 'amps', '[', val, 0.5, ']']))
        hist[-1].append(('expect-create', o.node_id, {'synth': '/s_new', 'group': '/g_new', 'pargroup': '/p_new'}[op],
                         ai, 0 if tk == 2 else (target.node_id if tk == 1 else server.default_group.node_id)))
    elif op in ('set', 'setn', 'map', 'fill', 'run', 'release', 'move', 'free'):
        o = pick(nodes, 'node')
        val = ctx.real(f'val{i}', -10, 10)
        hist.append([op, o.node_id])
        if op == 'set':
            k = ctx.choose(f'setk{i}', 3)
            if k == 0:
                o.set('freq', val, 3, [val, 1.0])
            elif k == 1:
                b = bus.ControlBus(2, server)
                ab = bus.AudioBus(1, server)
                buses.extend([b, ab])
                o.set('freq', b, 'in', ab)
                hist[-1].append(('expect-args', '/n_set', [o.node_id, 'freq', b.index, 'in', ab.index]))
            else:
                bf = buf.Buffer(64, 1, server)
                bf._vf_single = True
                bufs.append(bf)
                live_bufs.add(bf.bufnum)
                o.set('buf', bf, 'gate', 1)
                hist[-1].append(('expect-args', '/n_set', [o.node_id, 'buf', bf.bufnum, 'gate', 1]))
        elif op == 'setn':
            o.setn('freq', [val, 2.0], 'amp', 0.5)
            hist[-1].append(('expect-args', '/n_setn', [o.node_id, 'freq', 2, val, 2.0, 'amp', 1, 0.5]))
        elif op == 'map':
            k = ctx.choose(f'mapk{i}', 4)
            n = int(ctx.idx(f'mapch{i}', 1, 3))
            b = (bus.ControlBus if k in (0, 1) else bus.AudioBus)(n, server)
            buses.append(b)
            if k == 0:
                o.map('freq', b, 2, -1)
                hist[-1].append(('expect-args', '/n_map', [o.node_id, 'freq', b.index, 2, -1]))
            elif k == 1:
                o.mapn(3, b, 'amp', 7)
                hist[-1].append(('expect-args', '/n_mapn', [o.node_id, 3, b.index, n, 'amp', 7, 1]))
            elif k == 2:
                o.mapa('in', b)
                hist[-1].append(('expect-args', '/n_mapa', [o.node_id, 'in', b.index]))
            else:
                o.mapan(0, b)
                hist[-1].append(('expect-args', '/n_mapan', [o.node_id, 0, b.index, n]))
        elif op == 'fill':
            o.fill('freq', 2, val)
        elif op == 'run':
            o.run(bool(ctx.choose(f'flag{i}', 2)))
        elif op == 'release':
            o.release(val if ctx.choose(f'rel{i}', 2) else None)
        elif op == 'move':
            others = [x for x in nodes if x is not o]
            if not others:
                raise PathAbort('nothing to move relative to')
            t = others[ctx.choose(f'mt{i}', len(others))]
            mk = ctx.choose(f'mk{i}', 4)
            if mk >= 2 and not isinstance(t, nod.AbstractGroup):
                raise PathAbort('head/tail need a group')
            [o.move_before, o.move_after, o.move_to_head, o.move_to_tail][mk](t)
            hist[-1].append(('expect-args', ['/n_before', '/n_after', '/g_head', '/g_tail'][mk],
                             [o.node_id, t.node_id] if mk < 2 else [t.node_id, o.node_id]))
        else:
            o.free()
            nodes.remove(o)
            hist[-1].append(('expect-free', o.node_id))
    elif op == 'buffer':
        b = buf.Buffer(ctx.idx(f'frames{i}', 1, 4096), 1 + ctx.choose(f'ch{i}', 2), server)
        hist.append([op, b.bufnum])
        if b.bufnum in live_bufs:
            raise Violation(f'buffer number {b.bufnum} handed out twice', None, data('buf-dup'))
        live_bufs.add(b.bufnum)
        b._vf_single = True
        bufs.append(b)
        hist[-1].append(('expect-alloc', [b.bufnum]))
    elif op == 'buffers':
        n = int(ctx.idx(f'nbuf{i}', 1, 4))
        try:
            bl = buf.Buffer.new_consecutive(n, 512, 1) if ctx.choose(f'defsrv{i}', 2) else \
                buf.Buffer.new_consecutive(n, 512, 1, server)
        except (PathAbort, Inconclusive, Violation):
            raise
        except Exception as e:
            raise Violation(f'Buffer.new_consecutive({n}, 512, 1) raises {type(e).__name__}: {e}', None,
                            data('consecutive-raises'))
        nums = [b.bufnum for b in bl]
        hist.append([op, nums])
        if nums != list(range(nums[0], nums[0] + n)) or any(x in live_bufs for x in nums):
            raise Violation(f'consecutive buffers got numbers {nums}', None, data('consecutive'))
        live_bufs.update(nums)
        tag = object()
        for x in bl:
            x._vf_group = tag
        bufs.extend(bl)
        hist[-1].append(('expect-alloc', nums))
    elif op in ('buffree', 'buffree-twice'):
        b = pick(bufs, 'buf')
        # buffers allocated as a consecutive group are documented to be treated as a group: free every member
        group = [x for x in bufs if getattr(x, '_vf_group', None) is getattr(b, '_vf_group', b)] or [b]
        if len(group) > 1 and ctx.choose(f'rev{i}', 2):
            group.reverse()
        nums = [x.bufnum for x in group]
        with_fn = op == 'buffree' and i == 1 and ctx.choose(f'compl{i}', 2)
        for x in group:
            if with_fn:
                # completion message given as a function of the buffer: it sees the buffer as it was
                x.free(lambda b_: ['/b_query', b_.bufnum])
            else:
                x.free()
            if op == 'buffree-twice':
                x.free()
            bufs.remove(x)
        num = nums[0]
        live_bufs.difference_update(nums)
        freed_bufs.extend(nums)
        hist.append([op, nums, ('expect-bfree', nums)] + ([('expect-completion', nums)] if with_fn else []))
        # the allocator takes the numbers back
        if any(blk.address <= n_ < blk.address + blk.size for blk in server._buffer_allocator.blocks()
               for n_ in nums):
            raise Violation(f'buffer numbers {nums} were not all returned to the allocator', None, data('buf-return'))
    elif op == 'freeall':
        nums = sorted(live_bufs)
        buf.Buffer.free_all(server)
        hist.append([op, nums, ('expect-bfree', nums)])
        freed_bufs.extend(nums)
        live_bufs.clear()
        bufs.clear()
        if server._buffer_allocator.blocks():
            raise Violation('free_all left buffer numbers allocated', None, data('freeall-alloc'))
    elif op == 'bus':
        n = int(ctx.idx(f'nch{i}', 1, 3))
        b = (bus.AudioBus if ctx.choose(f'audio{i}', 2) else bus.ControlBus)(n, server)
        hist.append([op, type(b).__name__, b.index, n])
        for o in buses:
            if type(o) is type(b) and o.index is not None and \
                    not (b.index + n <= o.index or o.index + o.channels <= b.index):
                raise Violation(f'bus range [{b.index},{b.index + n}) overlaps a live bus', None, data('bus-overlap'))
        buses.append(b)
    elif op == 'busfree':
        b = pick(buses, 'bus')
        b.free()
        buses.remove(b)
        hist.append([op])
    elif op == 'subbus':
        if i > 0:
            raise PathAbort('sub buses are explored as the first operation of a history only (bound)')
        n = int(ctx.idx(f'pch{i}', 1, 3))
        parent = bus.ControlBus(n, server)
        buses.append(parent)
        off = ctx.choose(f'off{i}', n + 1)
        ch = 1 + ctx.choose(f'sch{i}', 2)
        hist.append([op, parent.index, n, off, ch])
        try:
            sb = parent.sub_bus(off, ch)
        except (PathAbort, Inconclusive, Violation):
            raise
        except Exception as e:
            if off + ch <= n:
                raise Violation(f'sub_bus({off}, {ch}) of a {n}-channel bus is refused: {type(e).__name__}: {e}', None,
                                data('subbus-refused'))
            return
        if off + ch > n:
            raise Violation(f'sub_bus({off}, {ch}) of a {n}-channel bus reaches outside its parent (index {sb.index}, '
                            f'{ch} channels; parent {parent.index}..{parent.index + n - 1})', None, data('subbus-range'))
        val = ctx.real(f'val{i}', -10, 10)
        k = ctx.choose(f'subuse{i}', 3)
        if k == 0:
            sb.set(*([val] * ch))
        elif k == 1:
            sb.setn([val] * ch)
        else:
            sb.fill(val, ch)
    elif op == 'busset':
        cb = [b for b in buses if type(b).__name__ == 'ControlBus']
        b = pick(cb, 'cbus')
        val = ctx.real(f'val{i}', -10, 10)
        b.set(*([val] * b.channels))
        hist.append([op, b.index, b.channels])


def check_cmds(ctx, cmds, hist, ledger_nodes, known_bufs, data, buses=()):
    h = hist[-1]
    for c in cmds:
        err = conforms(c)
        if err:
            raise Violation(f'command {c!r} does not conform to the server command reference: {err} (history {hist})',
                            None, data('schema:' + c[0]))
        # ids mentioned
        if c[0] in ('/s_new',):
            ids = [c[2], c[4]]
        elif c[0] in ('/g_new', '/p_new'):
            ids = [c[1], c[3]]
        elif c[0].startswith('/n_') or c[0].startswith('/g_'):
            ids = [c[1]] + ([c[2]] if c[0] in ('/n_before', '/n_after', '/g_head', '/g_tail') else [])
        else:
            ids = []
        for x in ids:
            if x not in ledger_nodes:
                raise Violation(f'{c[0]} mentions node id {x} which this client never allocated (history {hist})', None,
                                data('foreign-id'))
        if c[0] in ('/c_set', '/c_setn', '/c_fill'):
            own = [(b.index, b.index + b.channels) for b in buses
                   if type(b).__name__ == 'ControlBus' and b.index is not None]
            if c[0] == '/c_set':
                spans = [(c[k], 1) for k in range(1, len(c), 2)]
            elif c[0] == '/c_setn':
                spans = [(c[1], c[2])]
            else:
                spans = [(c[k], c[k + 1]) for k in range(1, len(c), 3)]
            for first, cnt in spans:
                if not any(lo <= first and first + cnt <= hi for lo, hi in own):
                    raise Violation(f'{c[0]} addresses control bus indices {first}..{first + cnt - 1}, which this client '
                                    f'did not allocate (own ranges {own}) (history {hist})', None, data('foreign-bus'))
        if c[0] in ('/b_alloc', '/b_free', '/b_zero') and c[1] not in known_bufs:
            raise Violation(f'{c[0]} mentions buffer number {c[1]!r} which this client does not own (history {hist})',
                            None, data('foreign-buf'))
    exp = [x for x in h if isinstance(x, tuple)]
    for e in exp:
        if e[0] == 'expect-create':
            _, nid, name, ai, tid = e
            mine = [c for c in cmds if c[0] == name]
            if len(mine) != 1:
                raise Violation(f'creating the object emitted {len(mine)} {name} commands', None, data('create-count'))
            c = mine[0]
            got = (c[2], c[3], c[4]) if name == '/s_new' else (c[1], c[2], c[3])
            if got != (nid, ai, tid):
                raise Violation(f'{name} carries (id, action, target) = {got}, the object has id {nid}, add action '
                                f'{ai}, target {tid}', None, data('create-args'))
        elif e[0] == 'expect-args':
            mine = [c for c in cmds if c[0] == e[1]]
            if len(mine) != 1:
                raise Violation(f'{h[0]} emitted {len(mine)} {e[1]} commands', None, data('args-count'))
            flat = []
            flat = list(mine[0][1:])
            want = list(e[2])
            same = len(flat) == len(want)
            if same:
                for a, b in zip(flat, want):
                    if a is b:
                        continue
                    if isinstance(a, (SymReal, SymInt)) or isinstance(b, (SymReal, SymInt)):
                        ctx.prove(a == b, f'{e[1]} carries {mine[0][1:]}, the call asks for {e[2]} (history {hist})',
                                  data('args-value'))
                    elif a != b or isinstance(a, str) != isinstance(b, str):
                        same = False
            if not same:
                raise Violation(f'{e[1]} carries {mine[0][1:]}, the call asks for {e[2]} (history {hist})', None,
                                data('args-value'))
        elif e[0] == 'expect-free':
            mine = [c for c in cmds if c[0] == '/n_free']
            if len(mine) != 1 or mine[0][1:] != [e[1]]:
                raise Violation(f'freeing node {e[1]} emitted {mine}', None, data('free-node'))
        elif e[0] == 'expect-alloc':
            got = [c[1] for c in cmds if c[0] == '/b_alloc']
            if got != e[1]:
                raise Violation(f'/b_alloc emitted for {got}, buffers allocated {e[1]}', None, data('alloc-cmds'))
        elif e[0] == 'expect-completion':
            for c in cmds:
                if c[0] == '/b_free' and (len(c) < 3 or c[2] != ['/b_query', c[1]]):
                    raise Violation(f'/b_free {c[1]} carries the completion message {c[2:]!r}; the function was given '
                                    f'the buffer, whose number is {c[1]}', None, data('completion'))
        elif e[0] == 'expect-bfree':
            got = sorted(c[1] for c in cmds if c[0] == '/b_free')
            if got != sorted(e[1]):
                raise Violation(f'/b_free emitted for {got}, buffers owned {sorted(e[1])} (history {hist})', None,
                                data('bfree-cmds'))
    ctx.obligations += 1
    ctx.discharged += 1


def spelling_scenario(ctx):
    """every documented spelling of every add action (traditional name, simple name, one letter, number) reaches the
    wire as the server's action number, for synths, groups and parallel groups"""
    m = N()
    nod, srv, main = m['nod'], m['srv'], m['main']
    server = srv.Server.default
    ai = ctx.choose('action', 5)
    sp = ctx.choose('spelling', 4)
    kind = ctx.choose('kind', 3)
    arg = [ACTIONS[ai], ['head', 'tail', 'before', 'after', 'replace'][ai], 'htbar'[ai], ai][sp]
    rec = {'mode': 'nrt', 'kind': 'spelling', 'sel': {'action': ai, 'spelling': sp, 'kind': kind}}
    if hasattr(main, 'reset'):
        main.reset()
    server._new_allocators()
    with Recorder(main) as R:
        target = nod.Group(server)
        n0 = len(R.sent)
        if kind == 0:
            o = nod.Synth('default', ['freq', 440], target, arg)
        elif kind == 1:
            o = nod.Group(target, arg)
        else:
            o = nod.ParGroup(target, arg)
        cmds = R.commands()[n0:] if False else [c for s_ in R.sent[n0:] for c in ([s_[1]] if s_[0] == 'msg' else s_[2])]
    if hasattr(main, 'reset'):
        main.reset()
    name = ['/s_new', '/g_new', '/p_new'][kind]
    mine = [c for c in cmds if c[0] == name]
    got = None if len(mine) != 1 else (mine[0][3] if kind == 0 else mine[0][2])
    if got != ai:
        raise Violation(f'{name} created with add action {arg!r} carries action number {got!r}; the server\'s number for '
                        f'{ACTIONS[ai]} is {ai}', None, {'key': 'c17:spelling', 'replay': rec})
    ctx.obligations += 1
    ctx.discharged += 1
    ctx.note('spelling')
    return {'action': arg}


SECOND_FORMS = ['Synth()', 'Synth.new_paused', 'Synth.grain', 'Synth.after', 'Synth.before', 'Synth.head', 'Synth.tail',
                'Synth.replace', 'Group()', 'Group.after', 'Group.head', 'ParGroup()', 'Buffer()', 'ControlBus.set',
                'node.set', 'node.free', 'Buffer.free']
_SECOND = []


def second_scenario(ctx):
    """objects created on a server that is not the default one: every command goes to that server's address and every
    id comes from that server's allocators (the default server's allocators are not touched)"""
    m = N()
    nod, srv, main, buf, bus = m['nod'], m['srv'], m['main'], m['buf'], m['bus']
    from sc3.base import netaddr as nad
    fi = ctx.choose('form', len(SECOND_FORMS))
    tk = ctx.choose('target', 2)        # 0: the second server itself, 1: a group on it
    inside = ctx.choose('bind', 2)
    form = SECOND_FORMS[fi]
    rec = {'mode': 'nrt', 'kind': 'second', 'sel': {'form': fi, 'target': tk, 'bind': inside}}
    if hasattr(main, 'reset'):
        main.reset()
    if not _SECOND:
        _SECOND.append(srv.Server('vfsecond', nad.NetAddr('127.0.0.1', 57177)))
    s2 = _SECOND[0]
    s1 = srv.Server.default
    s1._new_allocators()
    s2._new_allocators()
    with Recorder(main) as R:
        grp = nod.Group(s2)
        other = nod.Synth('default', None, grp)
        b0 = buf.Buffer(8, 1, s2)
        cb = bus.ControlBus(1, s2)
        if tk == 0 and form in ('Synth.after', 'Synth.before', 'Synth.replace', 'Group.after'):
            raise PathAbort('relative placement needs a node')
        target = s2 if tk == 0 else grp
        ids1 = (s1._node_allocator._temp, tuple(sorted(b.start for b in s1._buffer_allocator.blocks())))
        nxt = s2._node_allocator._temp
        n0 = len(R.sent)
        cm = s2.bind() if inside else None
        if cm:
            cm.__enter__()
        o = None
        if form == 'Synth()':
            o = nod.Synth('default', ['freq', 1], target)
        elif form == 'Synth.new_paused':
            o = nod.Synth.new_paused('default', ['freq', 1], target)
        elif form == 'Synth.grain':
            nod.Synth.grain('default', ['freq', 1], target)
        elif form == 'Synth.after':
            o = nod.Synth.after(other, 'default')
        elif form == 'Synth.before':
            o = nod.Synth.before(other, 'default')
        elif form == 'Synth.head':
            o = nod.Synth.head(target, 'default')
        elif form == 'Synth.tail':
            o = nod.Synth.tail(target, 'default')
        elif form == 'Synth.replace':
            o = nod.Synth.replace(other, 'default')
        elif form == 'Group()':
            o = nod.Group(target)
        elif form == 'Group.after':
            o = nod.Group.after(other)
        elif form == 'Group.head':
            o = nod.Group.head(target)
        elif form == 'ParGroup()':
            o = nod.ParGroup(target)
        elif form == 'Buffer()':
            nb = buf.Buffer(8, 1, s2)
            if nb.bufnum == b0.bufnum:
                raise Violation('a second buffer on the second server got the number of the first', None,
                                {'key': 'c17:second', 'replay': rec})
        elif form == 'ControlBus.set':
            cb.set(0.5)
        elif form == 'node.set':
            other.set('freq', 2)
        elif form == 'node.free':
            other.free()
        else:
            b0.free()
        if cm:
            cm.__exit__(None, None, None)
        new_targets = R.targets[n0:]
        cmds = [c for s_ in R.sent[n0:] for c in ([s_[1]] if s_[0] == 'msg' else s_[2])]
    if hasattr(main, 'reset'):
        main.reset()

    def bad(what):
        raise Violation(f'{form} with a target on a second server ({["the server", "a group"][tk]}'
                        f'{", inside bind()" if inside else ""}): {what}', None, {'key': 'c17:second', 'replay': rec})
    if not cmds:
        bad('no command reached the wire')
    want = s2.addr._target
    for t in new_targets:
        if t != want:
            bad(f'a command was sent to {t}, the server is at {want}')
    if o is not None:
        if o.server is not s2:
            bad('the new object belongs to another server')
        if o.node_id != nxt:
            bad(f'the new node got id {o.node_id}, the second server\'s allocator was at {nxt}')
        own = [c for c in cmds if c[0] in ('/s_new', '/g_new', '/p_new')]
        if len(own) != 1 or (own[0][2] if own[0][0] == '/s_new' else own[0][1]) != o.node_id:
            bad(f'creation command {own} does not carry the object\'s id {o.node_id}')
    ids1b = (s1._node_allocator._temp, tuple(sorted(b.start for b in s1._buffer_allocator.blocks())))
    if ids1b != ids1:
        bad('ids were taken from the default server\'s allocators')
    ctx.obligations += 1
    ctx.discharged += 1
    ctx.note('second')
    return {'form': form}


def alloc_scenario(ctx):
    """longer histories over ONE resource (buffers or control buses, at most 4 objects, 9 operations: new / free of a
    live object): a creation command never carries an id a live object owns, a free command carries the freed id once"""
    m = N()
    srv, main, buf, bus = m['srv'], m['main'], m['buf'], m['bus']
    kind = ctx.choose('kind', 2)
    sel = {'kind': kind}
    rec = {'mode': 'nrt', 'kind': 'alloc', 'sel': sel}
    if hasattr(main, 'reset'):
        main.reset()
    server = srv.Server.default
    server._new_allocators()
    hist = []
    live = []       # [obj, id]
    made = 0

    def bad(what):
        raise Violation(f'{["Buffer", "ControlBus"][kind]} history {hist}: {what}', None,
                        {'key': 'c17:alloc', 'replay': dict(rec, sel=dict(sel))})
    shape = ctx.choose('shape', 2)
    sel['shape'] = shape
    n_first = 3 + ctx.choose('first', 2) if shape == 1 else 0
    sel['first'] = n_first - 3 if shape == 1 else 0
    phase = {'freeing': True, 'freed': 0}
    with Recorder(main) as R:
        for i in range(12):
            if shape == 0:
                # free-form: at most 4 objects, 9 operations
                if i >= 9:
                    break
                opts = (['new'] if made < 4 else []) + [('free', k) for k in range(len(live))]
            else:
                # a block of 3..4 objects, some of them freed in any order, then as many new ones
                if made < n_first:
                    opts = ['new']
                elif phase['freeing']:
                    opts = [('free', k) for k in range(len(live))] + (['stop'] if phase['freed'] else [])
                else:
                    opts = ['new'] if made < n_first + phase['freed'] else []
            if not opts:
                break
            ci = ctx.choose(f'a{i}', len(opts)) if len(opts) > 1 else 0
            sel[f'a{i}'] = ci
            op = opts[ci]
            if op == 'stop' or (shape == 1 and phase['freeing'] and made >= n_first and not live):
                phase['freeing'] = False
                if op == 'stop':
                    continue
            if shape == 1 and op != 'new':
                phase['freed'] += 1
            n0 = len(R.commands())
            if op == 'new':
                made += 1
                try:
                    o = buf.Buffer(8, 1, server) if kind == 0 else bus.ControlBus(1, server)
                except (PathAbort, Inconclusive, Violation):
                    raise
                except Exception as e:
                    hist.append(('new', '?'))
                    bad(f'creation refused with {len(live)} live objects: {type(e).__name__}: {e}')
                ident = o.bufnum if kind == 0 else o.index
                hist.append(('new', ident))
                if ident in [x[1] for x in live]:
                    bad(f'the new object got id {ident}, which a live object still owns')
                cmds = R.commands()[n0:]
                if kind == 0 and [c[:2] for c in cmds] != [['/b_alloc', ident]]:
                    bad(f'creation emitted {cmds}')
                live.append([o, ident])
            else:
                o, ident = live.pop(op[1])
                hist.append(('free', ident))
                o.free()
                cmds = R.commands()[n0:]
                if kind == 0 and [c[:2] for c in cmds] != [['/b_free', ident]]:
                    bad(f'free emitted {cmds} for buffer {ident}')
    if hasattr(main, 'reset'):
        main.reset()
    ctx.obligations += 1
    ctx.discharged += 1
    ctx.note('alloc')
    return {'hist': hist}


def job_alloc(j):
    st = explore(alloc_scenario, max_paths=200000, timeout_ms=5000, stop_on_violation=True)
    d = st.as_dict()
    for v in d['violations']:
        v['data']['replay']['what'] = v['what']
    return d


def job_second(j):
    st = explore(second_scenario, max_paths=1000, timeout_ms=5000, stop_on_violation=True)
    d = st.as_dict()
    for v in d['violations']:
        v['data']['replay']['what'] = v['what']
    return d


def job_spelling(j):
    st = explore(spelling_scenario, max_paths=1000, timeout_ms=5000, stop_on_violation=True)
    d = st.as_dict()
    for v in d['violations']:
        v['data']['replay']['what'] = v['what']
    return d


def job(j):
    tier_deep[0] = j.get('deep', False)
    st = explore(lambda c: scenario(c, j['nops'], j['first'], j['bind']), max_paths=300000, timeout_ms=10000,
                 stop_on_violation=True)
    d = st.as_dict()
    d['notes'] = {k: (1 if k.startswith('op:') else v) for k, v in d['notes'].items()}
    for v in d['violations']:
        rec = v['data']['replay']
        rec['values'] = dict(v['model'])
        rec['what'] = v['what']
    return d


class _CCtx:
    def __init__(self, vals):
        self.vals = vals
        self.obligations = self.discharged = 0

    def real(self, name, lo=None, hi=None, **k):
        v = self.vals.get(name)
        return float(v) if v is not None else 0.5

    def idx(self, name, lo, hi):
        v = self.vals.get(name)
        return int(v) if v is not None else lo

    def choose(self, name, n):
        return int(self.vals.get(name, 0) or 0)

    def note(self, s):
        pass

    def prove(self, cond, what='', data=None):
        ok = cond if isinstance(cond, bool) else z3.is_true(z3.simplify(cond))
        if not ok:
            raise Violation(what, None, data)


def replay(rec):
    if rec.get('kind') == 'spelling':
        try:
            spelling_scenario(_CCtx(dict(rec['sel'])))
        except Violation as v:
            return v.what
        return None
    if rec.get('kind') == 'alloc':
        try:
            alloc_scenario(_CCtx(dict(rec['sel'])))
        except Violation as v:
            return v.what
        return None
    if rec.get('kind') == 'second':
        try:
            second_scenario(_CCtx(dict(rec['sel'])))
        except Violation as v:
            return v.what
        except PathAbort:
            return None
        return None
    ctx = _CCtx(rec.get('values', {}))
    tier_deep[0] = rec.get('deep', False)
    try:
        scenario(ctx, rec['nops'], rec['first'], rec['bind'])
    except Violation as v:
        return v.what
    except PathAbort:
        return None
    return None


def main(tier, seed):
    m = N()
    nod, buf, bus, srv, nad = m['nod'], m['buf'], m['bus'], m['srv'], m['nad']
    chk = Check(PID, 'model_checking', tier, seed)
    chk.functions = src_hash([nod.Node, nod.AbstractGroup.__init__, nod.Synth.__init__, buf.Buffer.__init__,
                              buf.Buffer.new_consecutive.__func__, buf.Buffer.free, buf.Buffer.free_all.__func__,
                              srv.Server._free_all_buffers, srv.Server._next_buffer_number, srv.Server.bind,
                              nad.BundleNetAddr, bus.ControlBus, bus.AudioBus])
    nops = 3
    jobs = []
    if tier != 'quick':
        # 4-operation histories for a few first pairs (the full 4-operation space does not finish in an hour here)
        for a, a2 in (('synth', 'free'), ('group', 'synth'), ('buffer', 'buffers'), ('bus', 'synth'), ('synth', 'move'),
                      ('buffers', 'buffree'), ('group', 'group'), ('freeall', 'buffer')):
            jobs.append(dict(nops=4, first=[OPS.index(a), OPS.index(a2)], bind=0, deep=False))
    for b in (0, 1, 2):
        n = nops if b == 0 else nops - 1
        for a in range(len(OPS)):
            if OPS[a] in ('synth', 'group', 'pargroup', 'buffer', 'buffers', 'bus', 'freeall', 'subbus') or \
                    (b and OPS[a] == 'sync'):
                if OPS[a] == 'subbus':
                    jobs.append(dict(nops=1, first=[a], bind=b, deep=tier != 'quick'))
                elif b:
                    jobs.append(dict(nops=n, first=[a], bind=b, deep=tier != 'quick'))
                else:
                    for a2 in range(len(OPS)):
                        jobs.append(dict(nops=n, first=[a, a2], bind=b, deep=tier != 'quick'))
    for r in run_jobs('vf.props.c17', 'job', [j for j in jobs if not j['bind']], 'nrt'):
        chk.add('histories', r)
    for r in run_jobs('vf.props.c17', 'job', [j for j in jobs if j['bind']], 'rt'):
        chk.add('histories', r)
    chk.require_notes('histories', ['bind0', 'bind1', 'bind2'] + ['op:' + o for o in OPS])
    for r in run_jobs('vf.props.c17', 'job_spelling', [dict()], 'nrt'):
        chk.add('spelling', r)
    chk.require_notes('spelling', ['spelling'])
    for r in run_jobs('vf.props.c17', 'job_alloc', [dict()], 'nrt'):
        chk.add('allocation_histories', r)
    chk.require_notes('allocation_histories', ['alloc'])
    for r in run_jobs('vf.props.c17', 'job_second', [dict()], 'nrt'):
        chk.add('second_server', r)
    chk.require_notes('second_server', ['second'])
    chk.bounds = {'history_length': f'{nops} outside bind(), {nops - 1} inside' + ('' if tier == 'quick' else
                                     '; 4 outside bind() for 8 first pairs with the fourth operation from the list '
                                     'below; argument-form variants at every position'), 'operations': OPS,
                  'fourth_operation (thorough)': LAST_OPS, 'add_actions': ACTIONS,
                  'targets': 'server/default group, an existing node, root node id 0',
                  'consecutive_buffers': '1..4 (symbolic)', 'bind': 'outside, inside bind(), inside bind() with an '
                  'exception at a symbolic position',
                  'outside': 'asynchronous replies (/done, /n_info), sync inside bind in real-time mode, buffer '
                             'read/write/gen commands, Volume, Recorder'}
    chk.assumptions = ['command schemas transcribed from the Server Command Reference in vf/props/c17.py',
                       'the OSC interface\'s send_msg / send_bundle are wrapped by the harness to record what the '
                       'client objects hand over']
    return chk.finish(explanation='decision-tree model checking of client-object histories against a command schema '
                                  'table and an id ledger; counts and values symbolic')
