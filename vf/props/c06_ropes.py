"""C06 part (D): message / bundle framing with SYMBOLIC string and blob contents (vf/ropes.py).

A template fixes the argument kinds; lengths are forked over a stated range; every byte of every string / blob, every
int and every float is a solver variable.  The real OscInterface._build_msg / _build_bundle run on the proxies; the
produced datagram (cells) is walked with an independent expected layout written from the OSC 1.0 text; the library's
own decoder (OscMessage / OscBundle) must return the coerced arguments; the real size predictors must not be below the
real size; a string containing NUL must be refused.
"""
import struct
import z3
from .. import symx, ropes
from ..symx import explore, Violation, PathAbort, SymReal, SymInt, Inconclusive
from ..ropes import SymStr, SymBytes, eq_cells

# argument kinds: s string, b blob, i int32, f float, T True, F False, N None, E empty list, M nested message,
# B nested bundle, [ ] array markers (given as the strings '[' and ']')
TEMPLATES_QUICK = ['s', 'si', 'ss', 'b', 'sb', 'bs', 'isf', 'TFNE', 'M', 'sM', 'B', '[si]', 's[b]i', 'fs', '[i[s]i]', '[[i]][f]']
TEMPLATES_THOROUGH = TEMPLATES_QUICK + ['sss', 'bsb', 'MM', 'sBs', '[s[i]b]', 'isbfTNE', 'Ms', 'bM']


class Walk:
    """independent layout walk over the produced cells"""

    def __init__(self, ctx, cells, data):
        self.ctx = ctx
        self.c = cells
        self.i = 0
        self.data = data

    def fail(self, what, sub='layout'):
        raise Violation(what, self.ctx.model(), self.data(sub))

    def take(self, n, what):
        if self.i + n > len(self.c):
            self.fail(f'datagram too short for {what} at offset {self.i}')
        out = self.c[self.i:self.i + n]
        self.i += n
        return out

    def zeros(self, n, what):
        for c in self.take(n, what):
            if not ropes._is_conc(c):
                self.ctx.prove(symx._t(c) == 0, f'{what}: padding byte is not zero', self.data('padding'))
            elif c != 0:
                self.fail(f'{what}: padding byte {c} is not zero', 'padding')

    def string(self, cells, what):
        got = self.take(len(cells), what)
        c = eq_cells(got, cells)
        self.ctx.prove(c, f'{what}: string bytes differ from the source string', self.data('string'))
        self.zeros(4 - len(cells) % 4, what + ' terminator/padding')

    def int32(self, term, what):
        raw = self.take(4, what)
        if not all(ropes._is_conc(c) for c in raw):
            self.fail(f'{what}: int32 field holds string/blob content')
        v = struct.unpack('>i', bytes(raw))[0]
        self.ctx.prove(symx.placeholder_term(v) == term, f'{what}: int32 field differs from the value', self.data('int'))

    def float32(self, term, what):
        raw = self.take(4, what)
        if not all(ropes._is_conc(c) for c in raw):
            self.fail(f'{what}: float field holds string/blob content')
        v = struct.unpack('>f', bytes(raw))[0]
        t = symx.rep_term(v)
        if t is None:
            t = symx._real(symx._t(v))
        self.ctx.prove(symx._real(t) == symx._real(term), f'{what}: float field differs from the value',
                       self.data('float'))

    def blob(self, cells, what):
        self.int32(z3.IntVal(len(cells)), what + ' size')
        got = self.take(len(cells), what)
        self.ctx.prove(eq_cells(got, cells), f'{what}: blob bytes differ', self.data('blob'))
        self.zeros(-len(cells) % 4, what + ' padding')


def make_args(ctx, template, N, depth=0):
    """-> (args for the library, expected: list of (kind, payload))"""
    args, exp = [], []
    for k, ch in enumerate(template):
        nm = f'a{depth}_{k}'
        if ch == 's':
            m = int(ctx.idx(nm + '_len', 0, N))
            cells = ropes.sym_bytes(ctx, nm, m)
            nchars = ctx.idx(nm + '_chars', 0, N)
            ctx.assume(z3.And(nchars.e <= m, nchars.e * 4 >= m))
            if m == 1:
                # a one-byte string equal to '[' or ']' IS an array marker by the documented convention; the
                # reference treats string arguments as strings, so those two values are excluded (stated bound)
                ctx.assume(z3.And(cells[0].e != ord('['), cells[0].e != ord(']')))
            s = SymStr(cells, nchars)
            args.append(s)
            exp.append(('s', cells))
        elif ch == 'b':
            m = int(ctx.idx(nm + '_len', 1, N))
            cells = ropes.sym_bytes(ctx, nm, m)
            args.append(SymBytes(cells))
            exp.append(('b', cells))
        elif ch == 'i':
            v = ctx.int(nm, -2 ** 31, 2 ** 31 - 1)
            args.append(v)
            exp.append(('i', v.e))
        elif ch == 'f':
            v = ctx.real(nm, -1000, 1000)
            args.append(v)
            exp.append(('f', v.e))
        elif ch in 'TFNE':
            args.append({'T': True, 'F': False, 'N': None, 'E': []}[ch])
            exp.append(('i', z3.IntVal(1 if ch == 'T' else 0)))
        elif ch == 'M':
            a2, e2 = make_args(ctx, 'si', N, depth + 1 + k)
            args.append(['/n'] + a2)
            exp.append(('M', ('/n', e2)))
        elif ch == 'B':
            a2, e2 = make_args(ctx, 'i', N, depth + 1 + k)
            lat = ctx.real(nm + '_lat', 0, 1000)
            args.append([lat, ['/m'] + a2])
            exp.append(('B', (lat, [('/m', e2)])))
        elif ch in '[]':
            args.append(ch)
            exp.append((ch, None))
    return args, exp


def typetags(exp):
    out = ','
    for kind, _ in exp:
        out += {'s': 's', 'b': 'b', 'i': 'i', 'f': 'f', 'M': 'b', 'B': 'b', '[': '[', ']': ']'}[kind]
    return out


def msg_size(addr_cells, exp):
    """reference size of a message (bytes)"""
    n = len(addr_cells) + 4 - len(addr_cells) % 4
    tt = len(typetags(exp))
    n += tt + 4 - tt % 4
    for kind, p in exp:
        if kind == 's':
            n += len(p) + 4 - len(p) % 4
        elif kind == 'b':
            n += 4 + len(p) + (-len(p) % 4)
        elif kind in 'if':
            n += 4
        elif kind == 'M':
            n += 4 + msg_size(list(p[0].encode()), p[1])
        elif kind == 'B':
            n += 4 + 16 + sum(4 + msg_size(list(a.encode()), e) for a, e in p[1])
    return n


def walk_msg(w, addr_cells, exp, what='message'):
    w.string(addr_cells, what + ' address')
    w.string(list(typetags(exp).encode()), what + ' type tags')
    for k, (kind, p) in enumerate(exp):
        lab = f'{what} argument {k}'
        if kind == 's':
            w.string(p, lab)
        elif kind == 'b':
            w.blob(p, lab)
        elif kind == 'i':
            w.int32(p, lab)
        elif kind == 'f':
            w.float32(p, lab)
        elif kind == 'M':
            w.int32(z3.IntVal(msg_size(list(p[0].encode()), p[1])), lab + ' blob size')
            walk_msg(w, list(p[0].encode()), p[1], lab + ' nested message')
        elif kind == 'B':
            size = 16 + sum(4 + msg_size(list(a.encode()), e) for a, e in p[1])
            w.int32(z3.IntVal(size), lab + ' blob size')
            got = w.take(8, lab + ' bundle tag')
            if bytes(got) != b'#bundle\x00':
                w.fail(lab + ': nested bundle does not start with #bundle')
            w.take(8, lab + ' timetag')          # content is C07
            for a, e in p[1]:
                w.int32(z3.IntVal(msg_size(list(a.encode()), e)), lab + ' element size')
                walk_msg(w, list(a.encode()), e, lab + ' bundle element')


def decoded_equal(ctx, got, exp, data, what='decoded'):
    """the library's own decoder output vs the coerced source arguments"""
    exp_vals = []
    stack = [exp_vals]
    for kind, p in exp:
        if kind == '[':
            new = []
            stack[-1].append(('[', new))
            stack.append(new)
        elif kind == ']':
            stack.pop()
        else:
            stack[-1].append((kind, p))

    def cmp(gl, el, path):
        if len(gl) != len(el):
            raise Violation(f'{what}{path}: {len(gl)} values decoded, {len(el)} sent', ctx.model(), data('decode'))
        for k, (g, (kind, p)) in enumerate(zip(gl, el)):
            lab = f'{what}{path}[{k}]'
            if kind == '[':
                if not isinstance(g, list):
                    raise Violation(f'{lab}: array expected', ctx.model(), data('decode'))
                cmp(g, p, path + f'[{k}]')
            elif kind == 's':
                cells = g.cells if isinstance(g, SymStr) else list(g.encode()) if isinstance(g, str) else None
                if cells is None:
                    raise Violation(f'{lab}: string expected, got {type(g).__name__}', ctx.model(), data('decode'))
                ctx.prove(eq_cells(cells, p), f'{lab}: decoded string differs from the one sent', data('decode'))
            elif kind in ('b', 'M', 'B'):
                if not isinstance(g, (bytes, SymBytes)):
                    raise Violation(f'{lab}: blob expected, got {type(g).__name__}', ctx.model(), data('decode'))
                if kind == 'b':
                    ctx.prove(eq_cells(list(g.cells if isinstance(g, SymBytes) else g), p),
                              f'{lab}: decoded blob differs', data('decode'))
            elif kind == 'i':
                if isinstance(g, bool) or not isinstance(g, int):
                    raise Violation(f'{lab}: int expected, got {g!r}', ctx.model(), data('decode'))
                ctx.prove(symx.placeholder_term(g) == p, f'{lab}: decoded int differs', data('decode'))
            elif kind == 'f':
                t = symx.rep_term(g)
                if t is None:
                    t = symx._real(symx._t(g))
                ctx.prove(symx._real(t) == symx._real(p), f'{lab}: decoded float differs', data('decode'))
    cmp(list(got), exp_vals, '')


def rope_scenario(ctx, j):
    from sc3.base import main as _m, netaddr as nad, _osclib as oli
    main = _m.main
    N = j['N']
    rec = {'mode': 'nrt', 'kind': 'rope', 'job': dict(j)}

    def data(sub):
        return {'key': f'c06:rope:{sub}', 'replay': dict(rec, sub=sub)}
    osci = main._osc_interface
    addr = nad.NetAddr('127.0.0.1', 57110)
    with ropes.rope_shims(struct_shim=symx.OscStructShim):
        # address: '/' + symbolic bytes
        am = int(ctx.idx('addr_len', 0, min(N, 4)))
        acells = [ord('/')] + ropes.sym_bytes(ctx, 'addr', am)
        address = SymStr(acells, 1 + am)
        args, exp = make_args(ctx, j['template'], N)
        msg = [address] + args
        def str_cells(e):
            out = []
            for kind, p in e:
                if kind == 's':
                    out.extend(p)
                elif kind == 'M':
                    out.extend(str_cells(p[1]))
                elif kind == 'B':
                    for _, e2 in p[1]:
                        out.extend(str_cells(e2))
            return out
        allcells = [c for c in acells + str_cells(exp) if not ropes._is_conc(c)]
        bundle = j.get('bundle', False)
        try:
            if bundle:
                built = osci._build_bundle(0.0, [None, msg, ['/second', 7]])
            else:
                built = osci._build_msg(0.0, msg)
        except (oli.OscBuildError, ValueError) as e:
            # refused: only legitimate if some string byte can be NUL on this path
            if allcells and ctx.valid(z3.Or(*[symx._t(c) == 0 for c in allcells])):
                ctx.obligations += 1
                ctx.discharged += 1
                ctx.note('refused-nul')
                return {'template': j['template'], 'refused': True}
            raise Violation(f'a representable message was refused: {type(e).__name__}: {e}', ctx.model(),
                            data('refused'))
        if allcells:
            ctx.prove(z3.And(*[symx._t(c) != 0 for c in allcells]),
                      'a string containing a NUL byte was accepted (it cannot be represented in OSC)', data('nul'))
        dgram = built.dgram
        cells = list(dgram.cells) if isinstance(dgram, SymBytes) else list(dgram)
        if len(cells) % 4:
            raise Violation(f'datagram length {len(cells)} is not a multiple of 4', ctx.model(), data('align'))
        w = Walk(ctx, cells, data)
        if bundle:
            if bytes(w.take(8, 'bundle tag')) != b'#bundle\x00':
                w.fail('bundle does not start with #bundle')
            w.take(8, 'timetag')
            w.int32(z3.IntVal(msg_size(acells, exp)), 'first element size')
            walk_msg(w, acells, exp, 'first element')
            w.int32(z3.IntVal(msg_size(list(b'/second'), [('i', z3.IntVal(7))])), 'second element size')
            walk_msg(w, list(b'/second'), [('i', z3.IntVal(7))], 'second element')
        else:
            walk_msg(w, acells, exp)
        if w.i != len(cells):
            raise Violation(f'{len(cells) - w.i} trailing bytes after the last argument', ctx.model(), data('layout'))
        # library's own decoder
        if bundle:
            parsed = oli.OscBundle(dgram)
            content = list(parsed)
            if len(content) != 2:
                raise Violation(f'bundle decodes to {len(content)} elements', ctx.model(), data('decode'))
            first = content[0]
        else:
            first = built
        a = first.address
        acmp = a.cells if isinstance(a, SymStr) else list(a.encode())
        ctx.prove(eq_cells(acmp, acells), 'decoded address differs from the one sent', data('decode'))
        decoded_equal(ctx, first.params, exp, data)
        # size prediction
        real = len(cells)
        try:
            pred = addr._calc_bndl_dgram_size([msg, ['/second', 7]]) if bundle else addr._calc_msg_dgram_size(msg)
        except (PathAbort, Inconclusive, Violation):
            raise
        except Exception as e:
            raise Violation(f'size prediction raises {type(e).__name__}: {e} for a message that is accepted for sending',
                            ctx.model(), data('size-raises'))
        ctx.prove(symx._t(pred) >= real, f'predicted size is below the real encoded size {real}', data('size'))
    ctx.note('rope:' + j['template'] + (':bundle' if bundle else ''))
    ctx.note('accepted')
    return {'template': j['template'], 'bytes': len(cells)}


def job_rope(j):
    st = explore(lambda c: rope_scenario(c, j), max_paths=200000, timeout_ms=20000, stop_on_violation=True)
    d = st.as_dict()
    for v in d['violations']:
        rec = v['data']['replay']
        rec['values'] = dict(v['model'])
        rec['what'] = v['what']
    return d


# ------------------------------------------------------------------ replay: real str / bytes from the model

def replay_rope(rec):
    """rebuild the message with REAL str / bytes / numbers from the model and check it with the independent reader"""
    from sc3.base import main as _m, netaddr as nad, _osclib as oli
    from .. import oscref
    main = _m.main
    j = rec['job']
    vals = rec.get('values', {})
    N = j['N']

    def g(name, dflt=0):
        v = vals.get(name)
        return dflt if v is None else v

    def mk(template, depth=0):
        out = []
        for k, ch in enumerate(template):
            nm = f'a{depth}_{k}'
            if ch == 's':
                m = int(g(nm + '_len'))
                out.append(bytes(int(g(f'{nm}_{i}', 97)) for i in range(m)).decode('latin-1'))
            elif ch == 'b':
                m = int(g(nm + '_len', 1))
                out.append(bytes(int(g(f'{nm}_{i}')) for i in range(m)))
            elif ch == 'i':
                out.append(int(g(nm)))
            elif ch == 'f':
                out.append(float(g(nm)))
            elif ch in 'TFNE':
                out.append({'T': True, 'F': False, 'N': None, 'E': []}[ch])
            elif ch == 'M':
                out.append(['/n'] + mk('si', depth + 1 + k))
            elif ch == 'B':
                out.append([float(g(nm + '_lat')), ['/m'] + mk('i', depth + 1 + k)])
            else:
                out.append(ch)
        return out
    am = int(g('addr_len'))
    # latin-1 decoding gives one character per model byte; bytes >= 0x80 become 2-byte utf-8 sequences, which keeps
    # the class "non-ASCII string" but not the exact bytes: replays of pure layout findings use ASCII models
    address = '/' + bytes(int(g(f'addr_{i}', 97)) for i in range(am)).decode('latin-1')
    msg = [address] + mk(j['template'])
    osci = main._osc_interface
    addr = nad.NetAddr('127.0.0.1', 57110)
    has_nul = any(isinstance(a, str) and '\x00' in a for a in msg)
    try:
        built = osci._build_bundle(0.0, [None, msg, ['/second', 7]]) if j.get('bundle') else osci._build_msg(0.0, msg)
    except (oli.OscBuildError, ValueError) as e:
        return None if has_nul else f'a representable message was refused: {type(e).__name__}: {e}'
    if has_nul:
        return 'a string containing a NUL character was accepted'
    dg = bytes(built.dgram)
    if len(dg) % 4:
        return f'datagram length {len(dg)} is not a multiple of 4'
    try:
        tree = oscref.decode(dg)
    except oscref.OscError as e:
        return f'datagram is not OSC 1.0: {e}'
    m0 = oscref.messages(tree)[0]
    if m0[1] != address:
        return f'decoded address {m0[1]!r} differs from {address!r}'
    flat = [a_ for a_ in msg[1:] if not (isinstance(a_, str) and a_ in '[]' and len(a_) == 1)]
    got = [a_ for a_ in m0[2] if a_[0] not in '[]']
    if len(got) != len(flat):
        return f'{len(got)} arguments decoded, {len(flat)} sent'
    for src, (tag, val) in zip(flat, got):
        if isinstance(src, str) and (tag != 's' or val != src):
            return f'string argument {src!r} decodes to {val!r}'
        if isinstance(src, bytes) and (tag != 'b' or val != src):
            return f'blob argument {src!r} decodes to {val!r}'
        if isinstance(src, bool) or src is None or src == []:
            if tag != 'i' or val != (1 if src is True else 0):
                return f'{src!r} decodes to {tag}:{val!r}'
        elif isinstance(src, int) and (tag != 'i' or val != src):
            return f'int argument {src} decodes to {val!r}'
    # the library's own decoder
    try:
        if j.get('bundle'):
            own = list(list(oli.OscBundle(dg))[0].params)
        else:
            own = list(oli.OscMessage(dg).params)
    except Exception as e:
        return f'the library\'s own decoder rejects the datagram it built: {type(e).__name__}: {e}'

    def flat_(x):
        out = []
        for y in x:
            if isinstance(y, list):
                out.extend(flat_(y))
            else:
                out.append(y)
        return out
    own = flat_(own)
    if len(own) == len(flat):
        for src, val in zip(flat, own):
            if isinstance(src, (str, bytes)) and val != src:
                return f'the library\'s own decoder returns {val!r} for the argument {src!r}'
    try:
        pred = addr._calc_bndl_dgram_size([msg, ['/second', 7]]) if j.get('bundle') else addr._calc_msg_dgram_size(msg)
    except Exception as e:
        return f'size prediction raises {type(e).__name__}: {e} for a message that is accepted for sending'
    if pred < len(dg):
        return f'predicted size {pred} is below the real encoded size {len(dg)}'
    return None
