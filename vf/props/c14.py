"""C14 -- events resolve their keys and play as correctly timed server commands.

NRT process, harness-defined instruments (with and without gate).  Key values (degree, transpositions, octave,
detune, harmonic, db / velocity / amp, dur / stretch / legato, latency, deltas) are symbolic; which keys are present
is finite control.  (A) key chains: event(key) == the documented formula (z3; exp2/log2/exp10 uninterpreted with
inverse axioms).  (B) playing a note event inside a routine: exactly one /s_new at logical time + latency carrying
instrument, fresh node id, add action, group and the event's value for each control the event defines, one
/n_set gate 0 later by sustain iff the instrument has a gate, nothing for a rest.  (C) players: event k at
start + sum of deltas; Ppar keeps each child's timeline; Pdur clips to the requested total.
"""
import itertools
import z3
from .. import symx
from ..symx import explore, Violation, PathAbort, SymReal, SymInt, Inconclusive
from ..run import Check, run_jobs, src_hash

PID = 'C14'
MAJOR = [0, 2, 4, 5, 7, 9, 11]


def E():
    from sc3.seq import event as evt, eventstream as est, scale as scl
    from sc3.seq.patterns import eventpatterns as evp, listpatterns as lsp, filterpatterns as flp
    from sc3.base import main as _m, clock as clk, stream as stm, builtins as bi
    from sc3.synth import synthdef as sdf, server as srv, synthdesc as sdc
    from sc3.synth.ugens import inout as iou, noise as nse
    return dict(evt=evt, est=est, scl=scl, evp=evp, lsp=lsp, flp=flp, main=_m.main, clk=clk, stm=stm, bi=bi, sdf=sdf,
                srv=srv, sdc=sdc, iou=iou, nse=nse)


def R(x):
    return symx._real(symx._t(x))


def osc_shims():
    return symx.shims(extra={'sc3.base._osclib': {'struct': symx.OscStructShim}})


_DEFS = {}


def instruments(m):
    """definitions are built once per process with concrete defaults"""
    if _DEFS:
        return
    iou, nse, sdf = m['iou'], m['nse'], m['sdf']

    def vgate(freq=440.0, amp=0.1, pan=0.0, gate=1.0, out=0):
        iou.Out.ar(out, nse.LFNoise0.ar(freq) * amp * gate)

    def vplain(freq=440.0, amp=0.1, cutoff=1000.0):
        iou.Out.ar(0, nse.LFNoise0.ar(freq) * amp)
    _DEFS['vgate'] = sdf.SynthDef('vgate', vgate)
    _DEFS['vplain'] = sdf.SynthDef('vplain', vplain)
    _DEFS['vgate'].add()
    _DEFS['vplain'].add()


def midicps_t(m):
    """440 * 2 ** ((m - 69) / 12) with the engine's exp2 kernel"""
    return 440.0 * symx.uf1('exp2', (m - 69.0) * SymReal(z3.RealVal(1) / 12))


# ------------------------------------------------------------------ (A) key chains

def chain_scenario(ctx, j):
    m = E()
    evt, bi = m['evt'], m['bi']
    from .c15 import Exact
    rec = {'mode': 'nrt', 'kind': 'chain', 'job': dict(j)}

    def data(sub):
        return {'key': f'c14:chain:{sub}', 'replay': dict(rec, sub=sub)}
    pitch = j['pitch']      # 'degree' | 'note' | 'midinote' | 'freq' | 'none'
    keys = {}
    deg = ctx.idx('degree', -9, 15)
    mt = ctx.idx('mtranspose', -3, 3)
    g, root, octv, ct = ctx.real('gtranspose', -12, 12), ctx.real('root', -12, 12), ctx.real('octave', 0, 9), \
        ctx.real('ctranspose', -12, 12)
    harm, det = ctx.real('harmonic', 0, 8, lo_strict=True), ctx.real('detune', -50, 50)
    note_v, midi_v, freq_v = ctx.real('note', -24, 24), ctx.real('midinote', 0, 127), ctx.real('freq', 20, 20000)
    with symx.shims(), Exact():
        if pitch == 'degree':
            keys.update(degree=deg)
            if j['transp']:
                keys.update(mtranspose=mt, gtranspose=g, root=root, octave=octv, ctranspose=ct)
        elif pitch == 'note':
            keys.update(note=note_v)
            if j['transp']:
                keys.update(gtranspose=g, root=root, octave=octv, ctranspose=ct, degree=deg)
        elif pitch == 'midinote':
            keys.update(midinote=midi_v)
            if j['transp']:
                keys.update(ctranspose=ct, degree=deg, octave=octv)
        elif pitch == 'freq':
            keys.update(freq=freq_v)
            if j['transp']:
                keys.update(midinote=midi_v, degree=deg, ctranspose=ct)
        if j['detune']:
            keys.update(harmonic=harm, detune=det)
        if j.get('scale'):
            keys['scale'] = m['scl'].Scale(MAJOR)
        e = evt.event(keys)
        G = lambda k, dflt: keys.get(k, dflt)      # noqa
        try:
            got_freq = e._detuned_freq()
            got_midinote = e('midinote') if pitch in ('degree', 'note') else None
            got_note = e('note') if pitch == 'degree' else None
        except (PathAbort, Inconclusive, Violation):
            raise
        except Exception as ex:
            raise Violation(f'resolving the pitch keys {sorted(keys)} raises {type(ex).__name__}: {ex}', None,
                            data('raises'))
        # ---- documented chain
        if pitch == 'degree':
            d = deg + (mt if j['transp'] else 0)
            dv = int(d)
            note = MAJOR[dv % 7] + 12 * (dv // 7)          # floor division: negative degrees go down an octave
            exp_note = note
            midi = (note + G('gtranspose', 0.0) + G('root', 0.0)) + 12.0 * (G('octave', 5.0) - 5.0) + 60
            base = midicps_t(midi)      # by design ctranspose modifies midinote, not the degree path (source comment)
        elif pitch == 'note':
            midi = (note_v + G('gtranspose', 0.0) + G('root', 0.0)) + 12.0 * (G('octave', 5.0) - 5.0) + 60
            base = midicps_t(midi + G('ctranspose', 0.0))
        elif pitch == 'midinote':
            base = midicps_t(midi_v + G('ctranspose', 0.0))
        elif pitch == 'freq':
            base = freq_v
        else:
            base = midicps_t(SymReal(z3.RealVal(60)))
        want = base * G('harmonic', 1.0) + G('detune', 0.0)
    if pitch == 'none':
        # default frequency is middle C (a float computed at import time): numeric comparison
        base_c = 261.6255653005986
        wantc = base_c * G('harmonic', 1.0) + G('detune', 0.0)
        ctx.prove(R(got_freq) == R(wantc), 'default freq is not midicps(60) * harmonic + detune', data('default'))
    else:
        ctx.prove(R(got_freq) == R(want), f'freq resolved from {pitch} (explicit keys {sorted(keys)}) differs from the '
                  'documented chain', data('freq'))
    if got_note is not None:
        ctx.prove(R(got_note) == R(exp_note), 'note is not scale[degree mod n] + steps-per-octave * (degree div n)',
                  data('note'))
    if got_midinote is not None:
        ctx.prove(R(got_midinote) == R(midi), 'midinote differs from the documented chain', data('midinote'))
    ctx.note('chain:' + pitch)
    return {'keys': sorted(keys)}


def amp_dur_scenario(ctx, j):
    m = E()
    evt = m['evt']
    from .c15 import Exact
    rec = {'mode': 'nrt', 'kind': 'ampdur', 'job': dict(j)}

    def data(sub):
        return {'key': f'c14:ampdur:{sub}', 'replay': dict(rec, sub=sub)}
    db, vel, amp = ctx.real('db', -90, 12), ctx.real('velocity', 0, 127), ctx.real('amp', 0, 2)
    dur, stretch, legato = ctx.real('dur', 0, 10), ctx.real('stretch', 0, 4), ctx.real('legato', 0, 2)
    dl, su = ctx.real('delta', 0, 10), ctx.real('sustain', 0, 10)
    keys = {}
    for k, v in (('db', db), ('velocity', vel), ('amp', amp)):
        if k in j['amp']:
            keys[k] = v
    for k, v in (('dur', dur), ('stretch', stretch), ('legato', legato), ('delta', dl), ('sustain', su)):
        if k in j['dur']:
            keys[k] = v
    with symx.shims(), Exact():
        e = evt.event(keys)
        got_amp, got_delta, got_sus = e('amp'), e('delta'), e('sustain')
        if 'amp' in keys:
            want_amp = amp
        elif 'db' in keys:
            want_amp = symx.uf1('exp10', db * 0.05)
        elif 'velocity' in keys:
            want_amp = vel / 127
        else:
            want_amp = 0.1
        D, S, L = keys.get('dur', 1.0), keys.get('stretch', 1.0), keys.get('legato', 0.8)
        want_delta = keys['delta'] if 'delta' in keys else D * S
        want_sus = keys['sustain'] if 'sustain' in keys else D * L * S
    ctx.prove(R(got_amp) == R(want_amp), f'amp with explicit {sorted(j["amp"])} differs from the documented chain',
              data('amp'))
    ctx.prove(R(got_delta) == R(want_delta), 'delta is not dur * stretch (or the explicit delta)', data('delta'))
    ctx.prove(R(got_sus) == R(want_sus), 'sustain is not dur * legato * stretch (or the explicit sustain)',
              data('sustain'))
    ctx.note('ampdur')
    return {'keys': sorted(keys)}


# ------------------------------------------------------------------ (B) note event play

def score_msgs(lst):
    out = []
    for ent in lst:
        for msg in ent[1:]:
            out.append((ent[0], list(msg)))
    return out


def play_scenario(ctx, j):
    m = E()
    evt, main, clk, stm, srv = m['evt'], m['main'], m['clk'], m['stm'], m['srv']
    instruments(m)
    rec = {'mode': 'nrt', 'kind': 'play', 'job': dict(j)}

    def data(sub):
        return {'key': f'c14:play:{sub}', 'replay': dict(rec, sub=sub)}
    server = srv.Server.default
    L = ctx.real('latency', 0, 5)
    d0 = ctx.real('d0', 0, 10)
    freq, amp, pan, cutoff = ctx.real('freq', 20, 2000), ctx.real('amp', 0, 1), ctx.real('pan', -1, 1), \
        ctx.real('cutoff', 20, 9000)
    dur, legato = ctx.real('dur', 0, 4), ctx.real('legato', 0, 2)
    inst = j['inst']
    keys = {'instrument': inst, 'freq': freq, 'dur': dur, 'legato': legato}
    present = j['present']          # which optional control keys the event defines
    if 'amp' in present:
        keys['amp'] = amp
    if 'pan' in present:
        keys['pan'] = pan
    if 'cutoff' in present:
        keys['cutoff'] = cutoff
    if j.get('add_action'):
        keys['add_action'] = j['add_action']
    if j.get('rest'):
        keys['dur'] = evt.Rest(dur)
    saved_lat = server.latency
    info = {}
    with osc_shims():
        main.reset()
        try:
            server.latency = L

            def body():
                yield d0
                info['t'] = clk.SystemClock.seconds
                info['next_id'] = server._node_allocator._temp
                e = evt.event(dict(keys))
                if j.get('rest'):
                    # a rest is skipped by the event stream player
                    from sc3.seq import eventstream as est
                    pl = est.EventStreamPlayer(m['lsp'].Pseq([e]).__stream__())
                    info['delta'] = pl._play_and_delta(e)
                else:
                    e.play()
                    info['node_id'] = e['node_id']
            stm.Routine(body).play(clk.SystemClock)
            score = main.process()
            msgs = score_msgs(score.list)
        finally:
            server.latency = saved_lat
            main.reset()
    snew = [(t, x) for t, x in msgs if x[0] == '/s_new']
    nset = [(t, x) for t, x in msgs if x[0] == '/n_set']
    if j.get('rest'):
        if snew or nset:
            raise Violation(f'a rest sent {[x[0] for _, x in snew + nset]}', None, data('rest'))
        dl_ = info['delta'].value if isinstance(info['delta'], evt.Rest) else info['delta']
        ctx.prove(R(dl_) == R(dur), 'a rest does not advance time by its duration', data('rest-delta'))
        ctx.note('rest')
        return {'job': j}
    if len(snew) != 1:
        raise Violation(f'{len(snew)} synth-creation commands for one note event', None, data('s_new-count'))
    t, msg = snew[0]
    ctx.prove(R(t) == R(info['t']) + R(L), '/s_new is not stamped at logical time + server latency', data('time'))
    want_action = {'addToHead': 0, 'addToTail': 1, None: 0}[j.get('add_action')]
    if msg[1] != inst or msg[3] != want_action or msg[4] != server.default_group.node_id:
        raise Violation(f'/s_new header {msg[:5]}: expected instrument {inst}, add action {want_action}, group '
                        f'{server.default_group.node_id}', None, data('header'))
    if msg[2] != info['node_id'] or msg[2] != info['next_id']:
        raise Violation(f'/s_new node id {msg[2]} is not the freshly allocated id {info["next_id"]}', None,
                        data('node-id'))
    controls = {'vgate': ['freq', 'amp', 'pan', 'out'], 'vplain': ['freq', 'amp', 'cutoff']}[inst]
    pairs = msg[5:]
    names = pairs[0::2]
    want_names = [c for c in controls if c == 'freq' or c in present]
    if names != want_names:
        raise Violation(f'/s_new sets {names}; the instrument\'s controls that the event defines are {want_names}', None,
                        data('controls'))
    val = dict(zip(pairs[0::2], pairs[1::2]))
    ctx.prove(R(val['freq']) == R(freq), 'freq value', data('value'))
    for k, v in (('amp', amp), ('pan', pan), ('cutoff', cutoff)):
        if k in val:
            ctx.prove(R(val[k]) == R(v), f'{k} value', data('value'))
    if inst == 'vgate':
        if len(nset) != 1:
            raise Violation(f'{len(nset)} gate-off commands for an instrument with a gate', None, data('gate-count'))
        t2, m2 = nset[0]
        if m2[1] != msg[2] or m2[2] != 'gate' or m2[3] != 0:
            raise Violation(f'gate-off command {m2}', None, data('gate-msg'))
        ctx.prove(R(t2) == R(t) + R(dur) * R(legato), 'gate-off is not later than /s_new by the event\'s sustain',
                  data('gate-time'))
    elif nset:
        raise Violation('gate-off sent to an instrument without gate', None, data('gate-count'))
    ctx.note('play:' + inst)
    return {'job': j, 'controls': names}


def again_scenario(ctx, j):
    """the same note event played again after its keys were changed, and an edited copy of a played event: every play
    sends the event's CURRENT values with a fresh node id at the current time"""
    m = E()
    evt, main, clk, stm, srv = m['evt'], m['main'], m['clk'], m['stm'], m['srv']
    instruments(m)
    rec = {'mode': 'nrt', 'kind': 'again', 'job': dict(j)}

    def data(sub):
        return {'key': f'c14:again:{sub}', 'replay': dict(rec, sub=sub)}
    server = srv.Server.default
    L = ctx.real('latency', 0, 5)
    d0, d1 = ctx.real('d0', 0, 10), ctx.real('d1', 0.125, 10)
    f1, f2 = ctx.real('freq', 20, 2000), ctx.real('freq2', 20, 2000)
    a1, a2, pan = ctx.real('amp', 0, 1), ctx.real('amp2', 0, 1), ctx.real('pan', -1, 1)
    saved_lat = server.latency
    info = {'t': [], 'ids': []}
    with osc_shims():
        main.reset()
        try:
            server.latency = L

            def body():
                yield d0
                e = evt.event({'instrument': 'vgate', 'freq': f1, 'amp': a1, 'dur': 1.0})
                if j.get('variant') == 'nogate':
                    e['send_gate'] = False      # no release is sent: the event must still send its CURRENT values
                info['t'].append(clk.SystemClock.seconds)
                e.play()
                info['ids'].append(e['node_id'])
                yield d1
                e['amp'] = a2           # changed
                e['pan'] = pan          # added
                info['t'].append(clk.SystemClock.seconds)
                e.play()
                info['ids'].append(e['node_id'])
                yield d1
                e2 = e.copy()
                e2['freq'] = f2
                del e2['pan']           # removed
                info['t'].append(clk.SystemClock.seconds)
                e2.play()
                info['ids'].append(e2['node_id'])
            stm.Routine(body).play(clk.SystemClock)
            score = main.process()
            msgs = score_msgs(score.list)
        finally:
            server.latency = saved_lat
            main.reset()
    snew = [(t, x) for t, x in msgs if x[0] == '/s_new']
    if len(snew) != 3:
        raise Violation(f'{len(snew)} synth-creation commands for three plays', None, data('count'))
    want = [{'freq': f1, 'amp': a1}, {'freq': f1, 'amp': a2, 'pan': pan}, {'freq': f2, 'amp': a2}]
    if len(set(x[2] for _, x in snew)) != 3 or [x[2] for _, x in snew] != info['ids']:
        raise Violation(f'node ids of the three plays: {[x[2] for _, x in snew]} (events say {info["ids"]})', None,
                        data('node-id'))
    for k, ((t, x), w) in enumerate(zip(snew, want)):
        ctx.prove(R(t) == R(info['t'][k]) + R(L), f'play {k}: /s_new is not stamped at logical time + latency',
                  data('time'))
        val = dict(zip(x[5::2], x[6::2]))
        if sorted(val) != sorted(w):
            raise Violation(f'play {k}: /s_new sets {sorted(val)}, the event defines {sorted(w)} at that moment', None,
                            data('controls'))
        for name, v in w.items():
            ctx.prove(R(val[name]) == R(v), f'play {k}: /s_new carries a stale value for {name!r} (the event was '
                      'changed before it was played again)', data('value'))
    ctx.note('again')
    return {'job': j}


# ------------------------------------------------------------------ (C) players

def player_scenario(ctx, j):
    m = E()
    evt, main, clk, stm, srv, evp, lsp, flp = m['evt'], m['main'], m['clk'], m['stm'], m['srv'], m['evp'], m['lsp'], \
        m['flp']
    instruments(m)
    rec = {'mode': 'nrt', 'kind': 'player', 'job': dict(j)}

    def data(sub):
        return {'key': f'c14:player:{j["form"]}:{sub}', 'replay': dict(rec, sub=sub)}
    server = srv.Server.default
    form = j['form']
    t0 = ctx.real('t0', 0, 5)
    with osc_shims():
        main.reset()
        try:
            expected = []       # (freq tag, time term)
            if form == 'pbind':
                durs = [ctx.real(f'dur{i}', 0, 3) for i in range(3)]
                stretch = ctx.real('stretch', 0, 2) if j.get('stretch') else None
                d = {'instrument': 'vplain', 'freq': lsp.Pseq([101.0, 102.0, 103.0]), 'dur': lsp.Pseq(list(durs))}
                if j.get('tuplekey'):
                    # one pattern assigns several keys at once (a tuple of names as key)
                    d = {'instrument': 'vplain',
                         ('freq', 'dur'): lsp.Pseq([(101.0 + i, du) for i, du in enumerate(durs)]), 'cutoff': 777.0}
                if stretch is not None:
                    d['stretch'] = stretch
                pat = evp.Pbind(d)
                acc = 0
                for i, du in enumerate(durs):
                    expected.append((101.0 + i, acc))
                    acc = acc + du * (stretch if stretch is not None else 1.0)
            elif form == 'ppar':
                # three children; the first ends early, the others keep running out of phase
                a = [ctx.real(f'a{i}', 0.125, 2) for i in range(1)]
                b = [ctx.real(f'b{i}', 0.125, 2) for i in range(3)]
                c = [ctx.real(f'c{i}', 0.125, 2) for i in range(3)]
                ch = []
                for base, ds in ((200.0, a), (300.0, b), (400.0, c)):
                    ch.append(evp.Pbind({'instrument': 'vplain', 'freq': lsp.Pseq([base + k for k in range(len(ds))]),
                                         'dur': lsp.Pseq(list(ds))}))
                    acc = 0
                    for k, du in enumerate(ds):
                        expected.append((base + k, acc))
                        acc = acc + du
                pat = evp.Ppar(*ch)
            elif form == 'pmono':
                # one synth; the first event creates it, the following ones set its controls: every message carries
                # the event's value for the control (freq after harmonic and detune, like any note event)
                fr = [ctx.real(f'f{i}', 100, 400) for i in range(3)]
                harm, det = ctx.real('harm', 1, 3), ctx.real('detune', 0, 5)
                durs = [ctx.real(f'dur{i}', 0.25, 2) for i in range(3)]
                pat = evp.Pmono('vgate', {'freq': lsp.Pseq(list(fr)), 'harmonic': harm, 'detune': det,
                                          'dur': lsp.Pseq(list(durs))})
            else:   # pdur
                durs = [ctx.real(f'dur{i}', 0.25, 2) for i in range(3)]
                total = ctx.real('total', 0.25, 5) if not j.get('quant') else 64.0
                pat = flp.Pdur(total, evp.Pbind({'instrument': 'vplain', 'freq': lsp.Pseq([101.0, 102.0, 103.0]),
                                                 'dur': lsp.Pseq(list(durs))}),
                                **({'quant': 0.5} if j.get('quant') else {}))
            info = {}

            def body():
                yield t0
                info['start'] = clk.SystemClock.seconds
                pl = pat.play(clk.SystemClock)
                info['player'] = pl
            stm.Routine(body).play(clk.SystemClock)
            score = main.process()
            msgs = score_msgs(score.list)
            end_time = main.elapsed_time()
        finally:
            main.reset()
    snew = [(t, x) for t, x in msgs if x[0] == '/s_new']
    start = R(info['start'])
    if form in ('pbind', 'ppar'):
        got = {}
        for t, x in snew:
            f = dict(zip(x[5::2], x[6::2])).get('freq')
            got.setdefault(float(f), []).append(t)
        for tag, when in expected:
            if len(got.get(tag, [])) != 1:
                raise Violation(f'event {tag} was played {len(got.get(tag, []))} times', None, data('count'))
            ctx.prove(R(got[tag][0]) == start + R(when), f'event {tag} is not played at the start plus the sum of the '
                      'preceding deltas of its own timeline', data('time'))
        if len(snew) != len(expected):
            raise Violation(f'{len(snew)} events played, {len(expected)} expected', None, data('count'))
        if j.get('tuplekey'):
            for t, x in snew:
                if dict(zip(x[5::2], x[6::2])).get('cutoff') != 777.0:
                    raise Violation('a key defined after a tuple of names does not reach the event: '
                                    f'{x[5:]}', None, data('tuplekey'))
    elif form == 'pmono':
        if len(snew) != 1:
            raise Violation(f'Pmono created {len(snew)} synths', None, data('mono-count'))
        nid = snew[0][1][2]
        sets = [(t, x) for t, x in msgs if x[0] == '/n_set' and x[1] == nid and 'freq' in x[2:]]
        if len(sets) != 2:
            raise Violation(f'Pmono: {len(sets)} /n_set messages carrying freq for events 2 and 3 (messages '
                            f'{[x[:4] for _, x in msgs]})', None, data('mono-count'))
        acc = z3.RealVal(0)
        seq = [snew[0]] + sorted(sets, key=lambda p: 0)       # score order = time order
        for k, (t, x) in enumerate(seq):
            args = x[5:] if x[0] == '/s_new' else x[2:]
            fv = dict(zip(args[0::2], args[1::2])).get('freq')
            ctx.prove(R(t) == start + acc, f'Pmono: event {k} is not on the pattern\'s timeline', data('mono-time'))
            ctx.prove(R(fv) == R(fr[k]) * R(harm) + R(det), f'Pmono: event {k} ({x[0]}) carries freq {fv!r}, the event\'s '
                      'frequency is freq * harmonic + detune', data('mono-freq'))
            acc = acc + R(durs[k])
    else:
        # Pdur: the events that start before the requested total are played on the pattern's timeline and the player
        # finishes exactly at start + total (when the pattern is at least that long)
        acc = z3.RealVal(0)
        n_before = 0
        ordered = sorted(snew, key=lambda p: float(dict(zip(p[1][5::2], p[1][6::2]))['freq']))
        for k, (t, x) in enumerate(ordered):
            ctx.prove(R(t) == start + acc, f'Pdur: event {k} is not on the pattern\'s own timeline', data('pdur-time'))
            ctx.prove(acc < R(total), 'Pdur: an event starts at or after the requested total duration',
                      data('pdur-late'))
            acc = acc + R(durs[k])
        whole = R(durs[0]) + R(durs[1]) + R(durs[2])
        ctx.prove(z3.Implies(whole >= R(total), R(end_time) == start + R(total)),
                  'Pdur: the player does not end at start + requested total', data('pdur-total'))
        if j.get('quant'):
            # the pattern is shorter than the total: the player ends on the next multiple of quant (0.5)
            span = R(end_time) - start
            k = z3.ToInt(span * 2)
            ctx.prove(z3.And(span == z3.ToReal(k) / 2, whole <= span, span < whole + 0.5),
                      'Pdur with quant: the player does not end at the pattern\'s length rounded up to the next '
                      'multiple of quant', data('pdur-quant'))
    ctx.note('player:' + form)
    return {'job': j, 'events': len(snew)}


def job(j):
    k = j['kind']
    h = {'chain': chain_scenario, 'ampdur': amp_dur_scenario, 'play': play_scenario, 'player': player_scenario,
         'again': again_scenario}[k]
    st = explore(lambda c: h(c, j), max_paths=60000, timeout_ms=20000, stop_on_violation=True)
    d = st.as_dict()
    for v in d['violations']:
        rec = v['data']['replay']
        rec['values'] = dict(v['model'])
        rec['what'] = v['what']
    return d


# ------------------------------------------------------------------ replay (concrete)

class _CCtx:
    def __init__(self, vals):
        self.vals = vals
        self.obligations = self.discharged = 0
        self.classes = []
        self._uf_apps = {}
        self.axioms_used = set()
        self._model = None
        self.track_consts = False

    def real(self, name, lo=None, hi=None, **k):
        v = self.vals.get(name)
        if v is None:
            v = 0.5 if lo is None else (lo + (hi if hi is not None else lo + 2)) / 2
        return float(v)

    def idx(self, name, lo, hi):
        v = self.vals.get(name)
        return int(v) if v is not None else max(lo, 0)

    def choose(self, name, n):
        return int(self.vals.get(name, 0) or 0)

    def note(self, s):
        pass

    def prove(self, cond, what='', data=None):
        if isinstance(cond, bool):
            ok = cond
        else:
            s = z3.simplify(cond)
            ok = z3.is_true(s)
            if not ok and not z3.is_false(s):
                # numeric comparison with tolerance for transcendental values evaluated in floats
                ok = _approx(cond)
        if not ok:
            raise Violation(what, None, data)


def _approx(cond):
    try:
        if z3.is_eq(cond):
            a, b = cond.children()
            fa, fb = _fval(a), _fval(b)
            return abs(fa - fb) <= 1e-6 * (1 + abs(fa) + abs(fb))
    except Exception:
        pass
    return False


def _fval(t):
    t = z3.simplify(t)
    if z3.is_rational_value(t) or z3.is_int_value(t):
        return float(t.as_fraction())
    if z3.is_algebraic_value(t):
        return float(t.approx(20).as_fraction())
    raise ValueError


def replay(rec):
    import math
    j = rec['job']
    ctx = _CCtx(rec.get('values', {}))
    saved = symx.uf1

    def uf1c(name, x):
        if name == 'exp2':
            return 2.0 ** x
        if name == 'exp10':
            return 10.0 ** x
        return getattr(math, name)(x)
    symx.uf1 = uf1c
    cur = symx.Ctx.cur
    try:
        {'chain': chain_scenario, 'ampdur': amp_dur_scenario, 'play': play_scenario,
         'player': player_scenario, 'again': again_scenario}[rec['kind']](ctx, j)
    except Violation as v:
        return v.what
    except PathAbort:
        return None
    finally:
        symx.uf1 = saved
        symx.Ctx.cur = cur
    return None


# ------------------------------------------------------------------ main

def main(tier, seed):
    m = E()
    evt, evp, flp, est, scl = m['evt'], m['evp'], m['flp'], m['est'], m['scl']
    chk = Check(PID, 'model_checking', tier, seed)
    chk.functions = src_hash([evt.PitchKeys, evt.AmplitudeKeys, evt.DurationKeys, evt.ServerKeys._get_msg_params,
                              evt.NoteEvent.play, evt.EventDict.__call__, evt.is_rest, est.EventStreamPlayer,
                              evp.Pbind, evp.Ppar, flp.Pdur, scl.Scale.degree_to_key])
    jobs = []
    for pitch in ('degree', 'note', 'midinote', 'freq', 'none'):
        for transp in (0, 1):
            for detune in (0, 1):
                jobs.append(dict(kind='chain', pitch=pitch, transp=transp, detune=detune, scale=0))
    jobs.append(dict(kind='chain', pitch='degree', transp=1, detune=0, scale=1))
    amps = [[], ['amp'], ['db'], ['velocity'], ['db', 'velocity'], ['amp', 'db']]
    durs = [[], ['dur'], ['dur', 'stretch', 'legato'], ['dur', 'delta'], ['dur', 'legato', 'sustain'], ['stretch']]
    for a in amps:
        for d in (durs if tier == 'thorough' else durs[:4]):
            jobs.append(dict(kind='ampdur', amp=a, dur=d))
    for inst in ('vgate', 'vplain'):
        for present in ([], ['amp'], ['amp', 'pan'], ['cutoff'], ['amp', 'pan', 'cutoff']):
            for aa in (None, 'addToTail'):
                jobs.append(dict(kind='play', inst=inst, present=present, add_action=aa, rest=0))
        jobs.append(dict(kind='play', inst=inst, present=['amp'], add_action=None, rest=1))
    jobs.append(dict(kind='again'))
    jobs.append(dict(kind='again', variant='nogate'))
    jobs += [dict(kind='player', form='pbind', stretch=0), dict(kind='player', form='pbind', stretch=1),
             dict(kind='player', form='ppar'), dict(kind='player', form='pdur'), dict(kind='player', form='pmono'),
             dict(kind='player', form='pbind', tuplekey=True), dict(kind='player', form='pdur', quant=True)]
    for r in run_jobs('vf.props.c14', 'job', jobs, 'nrt'):
        chk.add('events', r)
    chk.require_notes('events', ['chain:degree', 'chain:note', 'chain:midinote', 'chain:freq', 'chain:none', 'ampdur',
                                 'play:vgate', 'play:vplain', 'again', 'rest', 'player:pbind', 'player:ppar', 'player:pdur',
                                 'player:pmono'])
    chk.bounds = {'pitch': 'degree -9..15, mtranspose -3..3 (symbolic ints), other keys symbolic reals; default major '
                           'scale in equal temperament (+ one job with an explicit scale)',
                  'play': 'two instruments (with / without gate), 5 sets of defined controls, 2 add actions, rest',
                  'players': 'Pbind of 3 events (with/without stretch), Ppar of 3 children (1 + 3 + 3 events, symbolic '
                             'durations), Pdur over a 3-event Pbind with symbolic total, Pmono of 3 events with symbolic freq / harmonic / detune',
                  'outside': 'Pmono internals, MIDI events, tunings other than 12-tone equal temperament, Pchain'}
    chk.assumptions = ['exp2 / exp10 are uninterpreted kernels (inverse axioms); 1/12 and 1/440 denote their rationals',
                       'OSC struct packing of symbolic values uses placeholders; the score list is read directly']
    return chk.finish(explanation='documented key chains and score timelines as z3 validity over symbolic key values')
