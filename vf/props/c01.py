"""C01 -- SynthDef compilation preserves the meaning of the graph function.

Programs are small expression DAGs in SSA form (a node may use any earlier node or leaf any number of times, also
twice by one operator), built through the public API inside a real SynthDef build.  Every numeric constant is a
symbolic real, so the constructor-time shortcuts (== 0, 1, -1) fork by themselves.  The emitted bytes are decoded by
the independent reader (vf/scgf.py) into z3 terms; obligations per path:
  (1) each output's input term == the source expression's term for all leaf values and constants (z3, non-linear reals)
  (2) every stateful leaf unit occurs exactly once
  (3) operator units carry the server opcode of the source operator (independent table)
  (4) arithmetic units run at the highest rate among their inputs, other units at their creation rate
  (5) well-formed programs compile (an exception is a violation)
"""
import itertools
import z3
from .. import symx, scgf, sdsym
from ..symx import explore, Violation, PathAbort, SymReal, Inconclusive
from ..run import Check, run_jobs, src_hash

PID = 'C01'

LEAVES = ['A', 'B', 'K', 'I', 'S', 'P', 'c1', 'c2']
LEAF_RATE = {'A': 2, 'B': 2, 'K': 1, 'I': 0, 'S': 2, 'P': 1, 'c1': 0, 'c2': 0}
TAG = {'A': 101.0, 'B': 102.0, 'K': 103.0, 'I': 104.0, 'S': 106.0}
LEAF_CLS = {'A': 'LFNoise0', 'B': 'LFNoise0', 'K': 'LFNoise0', 'I': 'Rand', 'S': 'SinOsc'}
LEAF_VAR = {'A': 'LFNoise0_101', 'B': 'LFNoise0_102', 'K': 'LFNoise0_103', 'I': 'Rand_104', 'S': 'SinOsc_106', 'P': 'ctl_0'}
IMPURE = ('A', 'B', 'K', 'I')      # stateful/random units: never droppable; S (SinOsc) is pure
RING = ['neg', '+', '-', '*', '/']

# source operator -> (arity, how to apply, expected server opcode name)
UN_SRC = {
    'neg': lambda x: -x, 'abs': lambda x: abs(x), 'ceil': lambda x: x.ceil(), 'floor': lambda x: x.floor(),
    'frac': lambda x: x.frac(), 'sign': lambda x: x.sign(), 'squared': lambda x: x.squared(),
    'cubed': lambda x: x.cubed(), 'sqrt': lambda x: x.sqrt(), 'exp': lambda x: x.exp(),
    'reciprocal': lambda x: x.reciprocal(), 'midicps': lambda x: x.midicps(), 'cpsmidi': lambda x: x.cpsmidi(),
    'midiratio': lambda x: x.midiratio(), 'ratiomidi': lambda x: x.ratiomidi(), 'dbamp': lambda x: x.dbamp(),
    'ampdb': lambda x: x.ampdb(), 'octcps': lambda x: x.octcps(), 'cpsoct': lambda x: x.cpsoct(),
    'log': lambda x: x.log(), 'log2': lambda x: x.log2(), 'log10': lambda x: x.log10(), 'sin': lambda x: x.sin(),
    'cos': lambda x: x.cos(), 'tan': lambda x: x.tan(), 'asin': lambda x: x.asin(), 'acos': lambda x: x.acos(),
    'atan': lambda x: x.atan(), 'sinh': lambda x: x.sinh(), 'cosh': lambda x: x.cosh(), 'tanh': lambda x: x.tanh(),
    'distort': lambda x: x.distort(), 'softclip': lambda x: x.softclip(), 'bitNot': lambda x: ~x,
    'not': lambda x: x.not_(), 'asInt': lambda x: x.as_int(), 'asFloat': lambda x: x.as_float(),
    'rectWindow': lambda x: x.rectwindow(), 'hanWindow': lambda x: x.hanwindow(),
    'welWindow': lambda x: x.welwindow(), 'triWindow': lambda x: x.triwindow(), 'ramp': lambda x: x.ramp(),
    'scurve': lambda x: x.scurve(),
}
BIN_SRC = {
    '+': lambda a, b: a + b, '-': lambda a, b: a - b, '*': lambda a, b: a * b, '/': lambda a, b: a / b,
    'div': lambda a, b: a // b, 'mod': lambda a, b: a % b, '==': lambda a, b: a == b, '!=': lambda a, b: a != b,
    '<': lambda a, b: a < b, '>': lambda a, b: a > b, '<=': lambda a, b: a <= b, '>=': lambda a, b: a >= b,
    'min': lambda a, b: a.min(b), 'max': lambda a, b: a.max(b), 'bitAnd': lambda a, b: a & b,
    'bitOr': lambda a, b: a | b, 'bitXor': lambda a, b: a ^ b, 'lcm': lambda a, b: a.lcm(b),
    'gcd': lambda a, b: a.gcd(b), 'round': lambda a, b: a.round(b), 'roundUp': lambda a, b: a.roundup(b),
    'trunc': lambda a, b: a.trunc(b), 'atan2': lambda a, b: a.atan2(b), 'hypot': lambda a, b: a.hypot(b),
    'hypotApx': lambda a, b: a.hypotx(b), 'pow': lambda a, b: a ** b, 'leftShift': lambda a, b: a << b,
    'rightShift': lambda a, b: a >> b, 'unsignedRightShift': lambda a, b: a.urshift(b),
    'ring1': lambda a, b: a.ring1(b), 'ring2': lambda a, b: a.ring2(b), 'ring3': lambda a, b: a.ring3(b),
    'ring4': lambda a, b: a.ring4(b), 'difsqr': lambda a, b: a.difsqr(b), 'sumsqr': lambda a, b: a.sumsqr(b),
    'sqrsum': lambda a, b: a.sqrsum(b), 'sqrdif': lambda a, b: a.sqrdif(b), 'absdif': lambda a, b: a.absdif(b),
    'thresh': lambda a, b: a.thresh(b), 'amclip': lambda a, b: a.amclip(b), 'scaleneg': lambda a, b: a.scaleneg(b),
    'clip2': lambda a, b: a.clip2(b), 'excess': lambda a, b: a.excess(b), 'fold2': lambda a, b: a.fold2(b),
    'wrap2': lambda a, b: a.wrap2(b), 'firstArg': lambda a, b: a.first_arg(b),
}


def _ug():
    from sc3.synth.ugens import oscillators as ocl, inout as iou, noise as nse
    return ocl, iou, nse


def is_const(x):
    return isinstance(x, str) and x.startswith('c')


def ref_rate(prog, i):
    """reference rate of node/leaf i (nodes are ints >= 0 indexing prog['nodes'], leaves are names)"""
    if isinstance(i, str):
        return LEAF_RATE[i]
    n = prog['nodes'][i]
    return max(ref_rate(prog, a) for a in (n[2:] if n[0] == 'maddl' else (n[1], n[3]) if n[0] in ('rl-', 'rl/') else n[1:]))


def well_formed(prog):
    """at least one operand of every operator is a unit/control (number op number is not a graph expression)"""
    def numeric(i):
        if isinstance(i, str):
            return is_const(i)
        return all(numeric(a) for a in prog['nodes'][i][1:])
    for k, n in enumerate(prog['nodes']):
        if all(numeric(a) for a in n[1:]):
            return False
    return True


def den_src(prog, consts):
    cache = {}

    def leaf(n):
        if n in consts:
            return symx._real(consts[n].e) if isinstance(consts[n], SymReal) else z3.RealVal(repr(consts[n]))
        if n == 'P':
            return z3.Real('ctl_0')
        return z3.Real(f'leaf_{LEAF_VAR[n]}')

    def ev(i):
        if isinstance(i, str):
            return leaf(i)
        if i in cache:
            return cache[i]
        n = prog['nodes'][i]
        op = n[0]
        a = [ev(x) for x in n[1:]]
        if op == 'neg':
            v = -a[0]
        elif op == '+':
            v = a[0] + a[1]
        elif op == '-':
            v = a[0] - a[1]
        elif op == '*':
            v = a[0] * a[1]
        elif op == '/':
            v = a[0] / a[1]
        elif op == 'madd':
            v = a[0] * a[1] + a[2]
        elif op == 'maddl':
            v = a[1] * a[2] + a[3]
        elif op == 'rl-':
            v = a[0] - a[2]
        elif op == 'rl/':
            v = a[0] / a[2]
        elif op in ('sum', 'mix', 'sumn'):
            v = a[0]
            for x in a[1:]:
                v = v + x
        elif op in scgf.UNARY_INDEX:
            v = z3.Function(f'unop{scgf.UNARY_INDEX[op]}', z3.RealSort(), z3.RealSort())(a[0])
        else:
            v = z3.Function(f'binop{scgf.BINARY_INDEX[op]}', z3.RealSort(), z3.RealSort(), z3.RealSort())(a[0], a[1])
        cache[i] = v
        return v
    return ev


def run_prog(ctx, prog):
    """prog = dict(nodes=[(op, args...)], outs=[node or leaf, ...], out='kr'|'ar', uses=set of leaves)"""
    ocl, iou, nse = _ug()
    from sc3.synth import ugen as ugn
    consts = {n: ctx.real(n) for n in ('c1', 'c2') if n in prog['uses']}
    sdsym.avoid(ctx, consts.values(), [101, 102, 103, 104, 105, 106])
    uses = prog['uses']
    rec = {'mode': 'nrt', 'prog': {'nodes': [list(n) for n in prog['nodes']], 'outs': list(prog['outs']),
                                  'out': prog['out'], 'uses': sorted(uses)}, 'names': sorted(consts)}

    def data(sub):
        return {'key': f'c01:{sub}', 'replay': dict(rec, sub=sub)}

    def graph(p=0.5):
        leaf = {}
        if 'A' in uses:
            leaf['A'] = nse.LFNoise0.ar(101)
        if 'B' in uses:
            leaf['B'] = nse.LFNoise0.ar(102)
        if 'K' in uses:
            leaf['K'] = nse.LFNoise0.kr(103)
        if 'I' in uses:
            leaf['I'] = nse.Rand.new(104, 105)
        if 'S' in uses:
            leaf['S'] = ocl.SinOsc.ar(106)
        leaf['P'] = p
        leaf.update(consts)
        vals = []

        def get(i):
            return leaf[i] if isinstance(i, str) else vals[i]
        for n in prog['nodes']:
            op = n[0]
            a = [get(x) for x in n[1:]]
            if all(isinstance(x, (int, float, SymReal)) for x in a) or \
                    (op not in ('+', '-', '*', '/', 'rl-', 'rl/') and isinstance(a[0], (int, float, SymReal))):
                # constant shortcuts turned every operand into a plain number: the user's own arithmetic, outside
                ctx.note('numeric-fold')
                raise PathAbort('number op number')
            if op == 'madd':
                v = a[0].madd(a[1], a[2])
            elif op == 'sum':
                v = ugn.ChannelList(a).sum()
            elif op == 'maddl':
                # list form with channels of different rates: the node is the SECOND channel
                v = ugn.ChannelList([a[0], a[1]]).madd(a[2], a[3])[1]
            elif op in ('rl-', 'rl/'):
                # a plain number / a unit on the LEFT of a channel list (reflected operator of the list)
                v = (a[0] - ugn.ChannelList([a[1], a[2]]) if op == 'rl-' else a[0] / ugn.ChannelList([a[1], a[2]]))[1]
            elif op == 'mix':
                v = MIX().new(list(a))
            elif op == 'sumn':
                v = (ugn.Sum3 if len(a) == 3 else ugn.Sum4).new(*a)
            elif op in UN_SRC and len(a) == 1:
                v = UN_SRC[op](a[0])
            else:
                v = BIN_SRC[op](a[0], a[1])
            vals.append(v)
        for k, o in enumerate(prog['outs']):
            (iou.Out.ar if prog['out'] == 'ar' else iou.Out.kr)(k, get(o))

    def graph_nop():
        return graph()
    fn = graph if 'P' in uses else graph_nop
    try:
        sd, b = sdsym.build_bytes('t', fn)
    except (PathAbort, Inconclusive, Violation):
        raise
    except Exception as e:
        msg = f'{type(e).__name__}: {e}'
        if prog['out'] == 'ar' and 'not audio rate' in msg:
            # a constant shortcut (x*0, x*1 ...) lowered the rate of the output expression: outside the claim
            ctx.note('ar-rate-rejected')
            raise PathAbort('rate')
        raise Violation(f'well-formed graph function does not compile: {msg}', None, data('compile'))
    try:
        defs = scgf.parse(b)
    except scgf.FormatError as e:
        raise Violation(f'emitted bytes are not SCgf-2: {e}', None, data('format'))
    d = defs[0]
    probs = scgf.validate(d)
    if probs:
        raise Violation('malformed definition: ' + '; '.join(probs[:3]), None, data('structure'))
    den = sdsym.Denot(d)
    # (2) stateful leaves exactly once
    want = sorted((LEAF_CLS[l], TAG[l]) for l in uses if l in IMPURE)
    got = sorted(t for t in den.tags if t[0] in ('LFNoise0', 'Rand'))
    if got != want:
        raise Violation(f'stateful units in the definition {got}, in the source {want}', None, data('leaves'))
    pure = [t for t in den.tags if t[0] == 'SinOsc']
    if len(pure) > (1 if 'S' in uses else 0):
        raise Violation(f'pure leaf duplicated: {pure}', None, data('leaves'))
    # outputs
    if len(den.outs) != len(prog['outs']):
        raise Violation(f'{len(den.outs)} output units in the definition, {len(prog["outs"])} in the source', None,
                        data('outs'))
    src = den_src(prog, consts)
    remaining = list(den.outs)
    for k in range(len(prog['outs'])):
        match = [o for o in remaining if len(o[3]) >= 1 and ctx.valid(o[3][0] == z3.RealVal(k))]
        if len(match) != 1:
            raise Violation(f'no unique output unit writes to bus {k}', None, data('bus'))
        ui, cls, rate, ins = match[0]
        remaining.remove(match[0])
        if len(ins) != 2:
            raise Violation(f'Out unit has {len(ins)} inputs', None, data('outs'))
        ctx.prove(ins[1] == src(prog['outs'][k]), 'compiled output differs from the source expression', data('meaning'))
        if rate != (2 if prog['out'] == 'ar' else 1):
            raise Violation(f'Out unit written at rate {rate}', None, data('out-rate'))
    # (3) opcodes of the operator units that survive unchanged: every BinaryOp/UnaryOp unit's opcode must be one the
    #     source (or a documented rewrite: + - * neg) can produce
    allowed_b = {scgf.BINARY_INDEX[n[0]] for n in prog['nodes'] if n[0] in scgf.BINARY_INDEX and len(n) == 3}
    allowed_u = {scgf.UNARY_INDEX[n[0]] for n in prog['nodes'] if n[0] in scgf.UNARY_INDEX and len(n) == 2}
    if any(n[0] == 'rl/' for n in prog['nodes']):
        allowed_b.add(scgf.BINARY_INDEX['/'])
    rewrite_b = {0, 1, 2} if any(n[0] in ('+', '-', '*', '/', 'neg', 'madd', 'maddl', 'rl-', 'rl/', 'sum', 'mix', 'sumn') for n in prog['nodes']) else set()
    rewrite_u = {0} if any(n[0] in ('-', '*', '/', 'madd', 'maddl', 'rl-', 'rl/', 'neg') for n in prog['nodes']) else set()
    for i, u in enumerate(d['ugens']):
        if u['cls'] == 'BinaryOpUGen' and u['spec'] not in allowed_b | rewrite_b:
            raise Violation(f'binary operator unit carries opcode {u["spec"]} ({scgf.BINARY[u["spec"]]}), source '
                            f'operators are {[n[0] for n in prog["nodes"]]}', None, data('opcode'))
        if u['cls'] == 'UnaryOpUGen' and u['spec'] not in allowed_u | rewrite_u:
            raise Violation(f'unary operator unit carries opcode {u["spec"]} ({scgf.UNARY[u["spec"]]}), source '
                            f'operators are {[n[0] for n in prog["nodes"]]}', None, data('opcode'))
    # (4) rates
    created = {('LFNoise0', 101.0): 2, ('LFNoise0', 102.0): 2, ('LFNoise0', 103.0): 1, ('Rand', 104.0): 0,
               ('SinOsc', 106.0): 2}
    sdsym.check_rates(ctx, d, den, data, created)
    ctx.note('shape:' + ','.join(u['cls'] + (str(u['spec']) if 'Op' in u['cls'] else '') for u in d['ugens']))
    return {'prog': rec['prog'], 'units': [u['cls'] for u in d['ugens']]}


DONE_UNITS = [('line', 'Line', 'kr'), ('line', 'Line', 'ar'), ('line', 'XLine', 'kr'), ('line', 'XLine', 'ar'),
              ('envgen', 'Linen', 'kr'), ('envgen', 'EnvGen', 'kr'), ('oscillators', 'LFGauss', 'ar'),
              ('filter', 'DetectSilence', 'ar'), ('filter', 'DetectSilence', 'kr')]


def stateful_scenario(ctx):
    """units that free or pause the synth when they finish (a done action) are side-effecting whether or not their
    output is read: they stay in the definition.  The list is written from the server's unit documentation, not read
    from the library's own purity marker."""
    import importlib
    ocl, iou, nse = _ug()
    from sc3.synth import synthdef as sdf
    from sc3.synth import envelope as env
    k = ctx.choose('unit', len(DONE_UNITS))
    variant = ctx.choose('variant', 3)       # 0 unread, 1 read only by an unread pure operator, 2 read by the output
    mod, name, rate = DONE_UNITS[k]
    cls = getattr(importlib.import_module('sc3.synth.ugens.' + mod), name)
    c1 = ctx.real('c1', 1, 10)
    rec = {'mode': 'nrt', 'kind': 'stateful', 'sel': {'unit': k, 'variant': variant}, 'names': ['c1']}

    def g():
        ctor = getattr(cls, rate)
        if name == 'EnvGen':
            u = ctor(env.Env.perc(), done_action=2)
        elif name == 'DetectSilence':
            u = ctor(getattr(nse.LFNoise0, rate)(302), 0.001, c1, done_action=2)
        elif name == 'LFGauss':
            u = ctor(c1, 0.1, done_action=2)
        elif name == 'Linen':
            u = ctor(1, 0.01, 1, c1, done_action=2)
        else:
            u = ctor(1, 2, c1, done_action=2)
        sig = nse.LFNoise0.ar(301)
        if variant == 1:
            u * 2
        if variant == 2 and rate == 'ar':
            sig = sig * u
        iou.Out.ar(0, sig)
    with symx.shims():
        try:
            sd, b = sdsym.build_bytes('st', g)
        except (PathAbort, Inconclusive, Violation):
            raise
        except Exception as e:
            raise Violation(f'{name}.{rate} with a done action does not build: {type(e).__name__}: {e}', None,
                            {'key': 'c01:stateful:raises', 'replay': rec})
    d = scgf.parse(b)[0]
    n = sum(1 for u in d['ugens'] if u['cls'] == name)
    if n != 1:
        raise Violation(f'{name}.{rate}(..., done_action=2) ' + ['whose output is not read', 'read only by an unread '
                        'operator', 'read by the output'][variant] + f' occurs {n} times in the definition (units '
                        f'{[u["cls"] for u in d["ugens"]]}): a unit that frees the synth was dropped', None,
                        {'key': 'c01:stateful:dropped', 'replay': rec})
    ctx.obligations += 1
    ctx.discharged += 1
    ctx.note('stateful')
    return {'unit': name, 'rate': rate, 'variant': variant}


def job_stateful(j):
    st = explore(stateful_scenario, max_paths=2000, timeout_ms=10000, stop_on_violation=True)
    d = st.as_dict()
    for v in d['violations']:
        rec = v['data']['replay']
        rec['values'] = {n: v['model'].get(n) for n in rec.get('names', [])} if v.get('model') else {}
        rec['what'] = v['what']
    return d


def job(j):
    progs = j['progs']
    tot = symx.Stats()
    for p in progs:
        p = dict(p)
        p['uses'] = set(p['uses'])
        p['nodes'] = [tuple(n) for n in p['nodes']]
        st = explore(lambda ctx: run_prog(ctx, p), max_paths=3000, timeout_ms=20000, stop_on_violation=True)
        tot.merge(st)
        if len(tot.violations) >= 3:
            break
    d = tot.as_dict()
    shapes = {k for k in d['notes'] if k.startswith('shape:')}
    d['notes'] = {k: v for k, v in d['notes'].items() if not k.startswith('shape:')}
    d['shapes'] = sorted(shapes)
    for v in d['violations']:
        rec = v['data']['replay']
        rec['values'] = {n: v['model'].get(n) for n in rec.get('names', [])}
        rec['what'] = v['what']
    d['programs'] = len(progs)
    return d


# ------------------------------------------------------------------ program enumeration

def uses_of(nodes, outs):
    u = set()
    for n in nodes:
        for a in n[1:]:
            if isinstance(a, str):
                u.add(a)
    for o in outs:
        if isinstance(o, str):
            u.add(o)
    return u


def enum_ring(nmax, leaves):
    """all SSA programs with <= nmax ring-operator nodes in which every node but the last is used by a later one"""
    out = []

    def rec(nodes):
        k = len(nodes)
        if k >= 1:
            used = set()
            for n in nodes:
                used.update(a for a in n[1:] if isinstance(a, int))
            if all(i in used for i in range(k - 1)):
                out.append(list(nodes))
        if k == nmax:
            return
        items = list(leaves) + list(range(k))
        for op in RING:
            if op == 'neg':
                for a in items:
                    rec(nodes + [(op, a)])
            else:
                for a in items:
                    for b in items:
                        rec(nodes + [(op, a, b)])
    rec([])
    return out


def MIX():
    from sc3.synth.ugens import mix
    return mix.Mix


def programs(tier):
    progs = []
    if tier == 'quick':
        sets = [(2, ['A', 'K', 'c1', 'c2'])]
    else:
        sets = [(2, ['A', 'B', 'K', 'I', 'S', 'P', 'c1', 'c2']), (3, ['A', 'K', 'c1'])]
    seen = set()
    for nmax, leaves in sets:
        for nodes in enum_ring(nmax, leaves):
            p = {'nodes': nodes, 'outs': [len(nodes) - 1]}
            if not well_formed(p):
                continue
            key = repr(nodes)
            if key in seen:
                continue
            seen.add(key)
            rr = ref_rate(p, len(nodes) - 1)
            p['out'] = 'ar' if rr == 2 else 'kr'
            p['uses'] = sorted(uses_of(nodes, p['outs']))
            progs.append(p)
    # madd / sums / sharing / dead code / two outputs templates
    L = ['A', 'K', 'c1', 'c2', 'P', 'I', 'B', 'S']
    tmpl = []
    for x in ['A', 'K']:
        for m in L:
            for a in L:
                tmpl.append(([('madd', x, m, a)], [0]))
                tmpl.append(([('*', x, m), ('madd', 0, 'c1', a)], [1]))
    for combo in itertools.product(['A', 'B', 'K', 'c1', 'P'], repeat=3):
        tmpl.append(([('sum', *combo)], [0]))
    for combo in itertools.product(['A', 'K', 'c1'], repeat=4):
        tmpl.append(([('sum', *combo)], [0]))
    # the n-ary sum units built directly and through Mix (constants in every position: their == 0 shortcuts)
    for combo in itertools.product(['A', 'B', 'c1'], repeat=3):
        tmpl.append(([('sumn', *combo)], [0]))
        tmpl.append(([('mix', *combo)], [0]))
    for combo in itertools.product(['A', 'B', 'c1'], repeat=4):
        if combo.count('c1') <= 2:
            tmpl.append(([('sumn', *combo)], [0]))
            tmpl.append(([('mix', *combo)], [0]))
    tmpl.append(([('mix', 'A', 'B', 'K', 'c1', 'A', 'c2', 'B')], [0]))
    # subtracting a negation from something the optimiser can fuse further
    for first in (('+', 'A', 'B'), ('*', 'A', 'B'), ('neg', 'A'), ('+', 'A', 'c1')):
        tmpl.append(([first, ('neg', 'K'), ('-', 0, 1)], [2]))
        tmpl.append(([first, ('+', 'B', 'K'), ('neg', 1), ('-', 0, 2)], [3]))
    # list forms of madd over channels of different rates (each channel's unit has the rate of ITS inputs)
    for x, y in (('A', 'K'), ('K', 'A'), ('A', 'B'), ('K', 'K')):
        for m, a in (('c1', 'c2'), ('K', 'c1'), ('c1', 'K'), ('A', 'c1')):
            tmpl.append(([('maddl', x, y, m, a)], [0]))
    # a number or a unit on the left of a channel list (the list's reflected operators)
    for left in ('c1', 'K', 'A'):
        for x, y in (('A', 'B'), ('K', 'A'), ('A', 'K')):
            tmpl.append(([('rl-', left, x, y)], [0]))
            tmpl.append(([('rl/', left, x, y)], [0]))
    for op in ['+', '*', '-']:
        # sharing: the same object twice by one operator, rewritten sums used twice
        tmpl.append(([('+', 'A', 'B'), ('+', 0, 'K'), (op, 1, 1)], [2]))
        tmpl.append(([('+', 'A', 'K'), (op, 0, 0)], [1]))
        tmpl.append(([('*', 'A', 'K'), ('+', 0, 'B'), (op, 1, 0)], [2]))
        tmpl.append(([('neg', 'A'), ('+', 'B', 0), (op, 1, 0)], [2]))
        tmpl.append(([('neg', 'A'), ('-', 'B', 0), (op, 1, 'K')], [2]))
        # the same (double) negation on both sides of one operator
        tmpl.append(([('neg', 'A'), ('neg', 0), (op, 1, 1)], [2]))
        tmpl.append(([('neg', 'A'), ('neg', 0), (op, 1, 0)], [2]))
        tmpl.append(([('neg', 'K'), ('neg', 0), (op, 1, 1), ('+', 2, 'A')], [3]))
    # dead code: unreferenced pure operators sitting on impure units, next to a live output
    for op in ['+', '*', 'neg']:
        dead = ('neg', 'B') if op == 'neg' else (op, 'B', 'c1')
        tmpl.append(([dead, ('*', 'A', 'c2')], [1]))
        tmpl.append(([('+', 'A', 'K'), dead], [0]))
        tmpl.append(([('+', 'S', 'c1') if op != 'neg' else ('neg', 'S'), ('*', 'A', 'c2')], [1]))
        tmpl.append(([(op, 'I', 'c1') if op != 'neg' else ('neg', 'I'), ('*', 'A', 'c2')], [1]))
    # two outputs sharing a sub-expression
    tmpl.append(([('+', 'A', 'B'), ('*', 0, 'c1'), ('+', 0, 'K')], [1, 2]))
    tmpl.append(([('*', 'A', 'c1'), ('+', 0, 'B'), ('+', 0, 'c2')], [1, 2]))
    tmpl.append(([('+', 'A', 'B'), ('+', 0, 'K')], [0, 1]))
    # a 3-term sum (fused by the optimiser) that is read twice: by a further + (on either side) and by another unit
    for extra in ('P', 'B'):
        tmpl.append(([('+', 'A', 'B'), ('+', 0, 'K'), ('+', extra, 1), ('*', 1, 'c1')], [2, 3]))
        tmpl.append(([('+', 'A', 'B'), ('+', 0, 'K'), ('+', 1, extra), ('*', 1, 'c1')], [2, 3]))
        tmpl.append(([('+', 'A', 'B'), ('+', 0, 'K'), ('+', extra, 1), ('-', 1, 'c1')], [2, 3]))
    for nodes, outs in tmpl:
        p = {'nodes': nodes, 'outs': outs}
        if not well_formed(p):
            continue
        key = repr((nodes, outs))
        if key in seen:
            continue
        seen.add(key)
        rr = min(ref_rate(p, o) for o in outs)
        p['out'] = 'ar' if rr == 2 else 'kr'
        p['uses'] = sorted(uses_of(nodes, outs))
        progs.append(p)
    # every operator of the server tables, on an audio and a control operand (opcode + rate obligations)
    for op in UN_SRC:
        for x in (['A', 'K'] if tier == 'thorough' else ['A']):
            progs.append({'nodes': [(op, x)], 'outs': [0], 'out': 'ar' if x == 'A' else 'kr', 'uses': [x]})
    for op in BIN_SRC:
        pairs = [('A', 'K'), ('K', 'A'), ('A', 'c1')] if tier == 'thorough' else [('A', 'K'), ('K', 'c1')]
        for a, b in pairs:
            if op in RING:
                continue
            rr = max(LEAF_RATE[a], LEAF_RATE[b])
            progs.append({'nodes': [(op, a, b)], 'outs': [0], 'out': 'ar' if rr == 2 else 'kr',
                          'uses': sorted({a, b})})
    return progs


# ------------------------------------------------------------------ replay: concrete build, concrete evaluation

def replay(rec):
    """Rebuild with the model's constants on the real code; evaluate source and compiled graphs numerically at
    several leaf valuations (exact rationals) and compare; repeat the structural checks."""
    from fractions import Fraction
    if rec.get('kind') == 'stateful':
        class C:
            obligations = discharged = 0

            def choose(self, name, n):
                return int(rec['sel'][name])

            def real(self, name, *a, **k):
                v = rec.get('values', {}).get(name)
                return float(v) if v is not None else 1.5

            def note(self, s):
                pass
        try:
            stateful_scenario(C())
        except Violation as v:
            return v.what
        return None
    ocl, iou, nse = _ug()
    from sc3.synth import ugen as ugn, synthdef as sdf
    prog = rec['prog']
    uses = set(prog['uses'])
    vals = rec.get('values', {})
    consts = {n: float(vals.get(n) if vals.get(n) is not None else 0.5) for n in ('c1', 'c2') if n in uses}

    def graph(p=0.5):
        leaf = {}
        if 'A' in uses:
            leaf['A'] = nse.LFNoise0.ar(101)
        if 'B' in uses:
            leaf['B'] = nse.LFNoise0.ar(102)
        if 'K' in uses:
            leaf['K'] = nse.LFNoise0.kr(103)
        if 'I' in uses:
            leaf['I'] = nse.Rand.new(104, 105)
        if 'S' in uses:
            leaf['S'] = ocl.SinOsc.ar(106)
        leaf['P'] = p
        leaf.update(consts)
        v = []

        def get(i):
            return leaf[i] if isinstance(i, str) else v[i]
        for n in prog['nodes']:
            op = n[0]
            a = [get(x) for x in n[1:]]
            if op == 'madd':
                v.append(a[0].madd(a[1], a[2]))
            elif op == 'sum':
                v.append(ugn.ChannelList(a).sum())
            elif op == 'maddl':
                v.append(ugn.ChannelList([a[0], a[1]]).madd(a[2], a[3])[1])
            elif op in ('rl-', 'rl/'):
                v.append((a[0] - ugn.ChannelList([a[1], a[2]]) if op == 'rl-' else a[0] / ugn.ChannelList([a[1], a[2]]))[1])
            elif op == 'mix':
                v.append(MIX().new(list(a)))
            elif op == 'sumn':
                v.append((ugn.Sum3 if len(a) == 3 else ugn.Sum4).new(*a))
            elif op in UN_SRC and len(a) == 1:
                v.append(UN_SRC[op](a[0]))
            else:
                v.append(BIN_SRC[op](a[0], a[1]))
        for k, o in enumerate(prog['outs']):
            (iou.Out.ar if prog['out'] == 'ar' else iou.Out.kr)(k, get(o))

    def graph_nop():
        return graph()
    try:
        sd = sdf.SynthDef('t', graph if 'P' in uses else graph_nop)
        b = bytes(sd.as_bytes())
    except Exception as e:
        if rec.get('sub') == 'compile':
            return f'graph function {prog} with constants {consts} does not compile: {type(e).__name__}: {e}'
        return None
    try:
        d = scgf.parse(b)[0]
    except scgf.FormatError as e:
        return f'bytes are not SCgf-2: {e}'
    probs = scgf.validate(d)
    if probs:
        return 'malformed definition: ' + '; '.join(probs[:3])
    # numeric evaluation with exact rationals
    import random
    rnd = random.Random(7)
    for trial in range(6):
        lv = {v: Fraction(rnd.randint(-9, 9), rnd.randint(1, 7)) for v in LEAF_VAR.values()}
        units = []
        outs = []
        tags = []
        bad = None
        for i, u in enumerate(d['ugens']):
            def inp(k):
                ui, oi = u['ins'][k]
                return Fraction(repr(d['consts'][oi])) if ui == -1 else units[ui][oi]
            c = u['cls']
            ins = [inp(k) for k in range(len(u['ins']))]
            if c == 'BinaryOpUGen':
                a, b_ = ins
                sp = u['spec']
                if sp == 0:
                    units.append([a + b_])
                elif sp == 1:
                    units.append([a - b_])
                elif sp == 2:
                    units.append([a * b_])
                elif sp == 4:
                    units.append([a / b_ if b_ != 0 else Fraction(0)])
                else:
                    units.append([('binop', sp, a, b_)])
            elif c == 'UnaryOpUGen':
                units.append([-ins[0]] if u['spec'] == 0 else [('unop', u['spec'], ins[0])])
            elif c == 'MulAdd':
                units.append([ins[0] * ins[1] + ins[2]])
            elif c == 'Sum3':
                units.append([sum(ins)])
            elif c == 'Sum4':
                units.append([sum(ins)])
            elif c == 'DC':
                units.append(list(ins))
            elif c in ('K2A', 'A2K'):
                units.append([ins[0]])
            elif c == 'Control':
                units.append([lv['ctl_0']] * len(u['outs']))
            elif c == 'Out':
                units.append([])
                outs.append((ins, u['rate']))
            else:
                tag = d['consts'][u['ins'][0][1]]
                tags.append((c, tag))
                units.append([lv.get(f'{c}_{int(tag)}', Fraction(1))])
        cv = {k: Fraction(repr(v)) for k, v in consts.items()}

        def ev(i, cache={}):
            if isinstance(i, str):
                return cv[i] if i in cv else lv[LEAF_VAR[i]]
            n = prog['nodes'][i]
            a = [ev(x) for x in n[1:]]
            op = n[0]
            if op == 'neg':
                return -a[0]
            if op == '+':
                return a[0] + a[1]
            if op == '-':
                return a[0] - a[1]
            if op == '*':
                return a[0] * a[1]
            if op == '/':
                return a[0] / a[1] if a[1] != 0 else Fraction(0)
            if op == 'madd':
                return a[0] * a[1] + a[2]
            if op == 'maddl':
                return a[1] * a[2] + a[3]
            if op == 'rl-':
                return a[0] - a[2]
            if op == 'rl/':
                return a[0] / a[2] if a[2] != 0 else Fraction(0)
            if op in ('sum', 'mix', 'sumn'):
                return sum(a)
            if op in scgf.UNARY_INDEX and len(a) == 1:
                return ('unop', scgf.UNARY_INDEX[op], a[0])
            return ('binop', scgf.BINARY_INDEX[op], a[0], a[1])
        want = sorted((LEAF_CLS[l], TAG[l]) for l in uses if l in IMPURE)
        if sorted(t for t in tags if t[0] in ('LFNoise0', 'Rand')) != want:
            return f'stateful units in the definition {sorted(tags)}, in the source {want} (program {prog}, ' \
                   f'constants {consts})'
        if len(outs) != len(prog['outs']):
            return f'{len(outs)} Out units in the definition, {len(prog["outs"])} in the source (program {prog})'
        outs.sort(key=lambda o: o[0][0])
        for k, (ins, rate) in enumerate(outs):
            if ins[0] != k or len(ins) != 2:
                return f'output {k}: bus/inputs {ins}'
            if ins[1] != ev(prog['outs'][k]):
                return f'program {prog} constants {consts}: output {k} computes {ins[1]}, the source expression ' \
                       f'is {ev(prog["outs"][k])} at leaf values {lv}'
        for i, u in enumerate(d['ugens']):
            if u['cls'] in sdsym.ARITH:
                want_r = max([0 if ui == -1 else d['ugens'][ui]['outs'][oi] for ui, oi in u['ins']] or [0])
                if u['rate'] != want_r:
                    return f'unit {i} {u["cls"]} rate {u["rate"]}, highest input rate {want_r} (program {prog})'
            if u['cls'] == 'LFNoise0':
                tag = d['consts'][u['ins'][0][1]]
                if u['rate'] != {101.0: 2, 102.0: 2, 103.0: 1}[tag]:
                    return f'LFNoise0 {tag} written at rate {u["rate"]}'
    return None


# ------------------------------------------------------------------ main

def main(tier, seed):
    from sc3.synth import ugen as ugn, synthdef as sdf, _specialindex as si
    chk = Check(PID, 'translation_validation', tier, seed)
    chk.functions = src_hash([ugn.BinaryOpUGen, ugn.UnaryOpUGen, ugn.MulAdd, ugn.Sum3, ugn.Sum4, ugn.BasicOpUGen,
                              ugn.SynthObject._perform_dead_code_elimination, ugn.PureUGenMixin,
                              sdf.SynthDef._build, sdf.SynthDef._finish_build, sdf.SynthDef._optimize_graph,
                              sdf.SynthDef._replace_ugen, sdf.SynthDef._topological_sort,
                              sdf.SynthDef._collect_constants, sdf.SynthDef._write_def, si.sc_spindex_opname])
    progs = programs(tier)
    B = 24
    jobs = [dict(progs=progs[i:i + B]) for i in range(0, len(progs), B)]
    shapes = set()
    nprog = 0
    for r in run_jobs('vf.props.c01', 'job', jobs, 'nrt'):
        chk.add('programs', r)
        shapes.update(r.get('shapes') or [])
        nprog += r.get('programs', 0)
    chk.programs = nprog
    for r in run_jobs('vf.props.c01', 'job_stateful', [dict()], 'nrt'):
        chk.add('stateful', r)
    chk.require_notes('stateful', ['stateful'])
    need = ['MulAdd', 'Sum3', 'Sum4', 'UnaryOpUGen0', 'DC']
    for n in need:
        if not any(n in s for s in shapes):
            chk.inconclusive.append(f'vacuity: no explored path produced a {n} unit')
    chk.bounds = {'ring_programs': '<=2 operator nodes over {A,K,c1,c2} (quick); <=2 over 7 leaves and <=3 over '
                                   '{A,K,c1} (thorough); SSA form with free sharing',
                  'templates': 'madd, 3/4-term channel-list sums, shared rewritten sums, dead pure operators on '
                               'impure units, two outputs', 'operators': 'every unary/binary server operator once',
                  'outside': 'demand-rate units, Select-based pseudo methods, PV chains, more than 3 operator nodes'}
    chk.assumptions = ['constants are exact reals; IEEE rounding of f32 constants is outside the claim',
                       'x/y is real division (x/0 unspecified but equal on both sides)',
                       'non-ring operators are uninterpreted functions indexed by their opcode',
                       'a graph whose audio-rate Out receives a non-audio signal only because a symbolic constant hit '
                       '0/1/-1 is skipped (rate rejection outside the claim)']
    return chk.finish(coverage_extra={'distinct_compiled_unit_sequences': len(shapes),
                                      'sample_shapes': sorted(shapes)[:10]},
                      explanation='translation validation: source term == compiled term for all leaf values')
