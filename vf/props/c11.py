"""C11 -- routines, conditions and flow variables obey their state machine.

NRT process.  Histories of external operations (next, send, pause, resume, stop, reset) are applied to a real Routine
whose body behaviour at each step is a decision-tree choice (yield a symbolic number, yield an object, return, raise,
raise YieldAndReset / AlwaysYield, try to stop / pause / reset itself, run a nested routine that tries to stop /
pause / reset its caller); after every operation the result / exception, the state and the library's current thread
and logical time are compared with an explicit reference automaton.  Condition / FlowVar: histories of wait, signal,
test changes, unhang and value assignment with the NRT scheduler run in between; a waiter resumes exactly once and
only after the test holds and a signal was given.
"""
import itertools
import z3
from .. import symx
from ..symx import explore, Violation, PathAbort, SymReal, Inconclusive
from ..run import Check, run_jobs, src_hash

PID = 'C11'
OPS = ['next', 'send', 'pause', 'resume', 'stop', 'reset', 'play']
BEHAV = ['yield-num', 'yield-obj', 'return', 'raise', 'yield-and-reset', 'always-yield', 'raise-base', 'self-stop',
         'self-pause', 'self-reset', 'nested', 'nested-stops-caller']


def S():
    from sc3.base import stream as stm, main as _m, clock as clk
    return stm, _m.main, clk


class Ref:
    """reference automaton of one routine"""

    def __init__(self):
        self.state = 'Init'
        self.terminal = None      # ('set', value) once an AlwaysYield happened
        self.stale_terminal = False
        self.alive = False        # a generator exists (body position is kept by the harness script)


def routine_scenario(ctx, nops, first):
    stm, main, clk = S()
    rec = {'mode': 'nrt', 'kind': 'routine', 'nops': nops, 'first': first}
    hist = []

    def data(sub):
        return {'key': f'c11:routine:{sub}', 'replay': dict(rec, sub=sub, history=list(hist))}
    main.reset()
    t_main = ctx.real('t_main', 0, 100)
    main.main_tt._m_seconds = t_main
    ref = Ref()
    step = itertools.count()
    inner_log = []
    box = {}

    class Boom(Exception):
        pass

    class BaseBoom(BaseException):
        pass
    marker = object()

    def body(inval):
        # the behaviour of every step is chosen when the step runs
        quiet = False      # at most one non-yielding behaviour in a row (bounds the depth of a step)
        while True:
            k = next(step)
            b = BEHAV[ctx.choose(f'behav{k}', 7 if quiet else len(BEHAV))]
            quiet = b not in BEHAV[:7]
            box['last'] = b
            hist.append(['body', b])
            if b == 'yield-num':
                v = ctx.real(f'y{k}', -5, 5)
                box['yield'] = v
                box['got'] = yield v
            elif b == 'yield-obj':
                box['yield'] = marker
                box['got'] = yield marker
            elif b == 'return':
                return
            elif b == 'raise':
                raise Boom('body failure')
            elif b == 'raise-base':
                raise BaseBoom('body failure that is not an Exception')      # e.g. KeyboardInterrupt, SystemExit
            elif b == 'yield-and-reset':
                v = ctx.real(f'y{k}', -5, 5)
                box['yield'] = v
                raise stm.YieldAndReset(v)
            elif b == 'always-yield':
                v = ctx.real(f'y{k}', -5, 5)
                box['yield'] = v
                raise stm.AlwaysYield(v)
            elif b in ('self-stop', 'self-pause', 'self-reset'):
                try:
                    getattr(r, b.split('-')[1])()
                    box['self-accepted'] = b
                except stm.RoutineException:
                    pass
                if r.state != r.State.Running:
                    box['self-accepted'] = b
            else:
                # nested routine: runs inside this one; afterwards the current thread must be this routine again
                def inner_body():
                    inner_log.append(('inner', main.current_tt is inner, clk.SystemClock.seconds))
                    if b == 'nested-stops-caller':
                        for meth in ('stop', 'pause', 'reset'):
                            try:
                                getattr(r, meth)()
                                box['caller-accepted'] = meth
                            except stm.RoutineException:
                                pass
                            if r.state != r.State.Running:
                                box['caller-accepted'] = meth
                    yield 1
                inner = stm.Routine(inner_body)
                before = clk.SystemClock.seconds
                inner.next()
                if main.current_tt is not r:
                    box['nested-current'] = True
                box['nested-time'] = (before, clk.SystemClock.seconds)
    r = stm.Routine(body)
    for i in range(nops):
        oi = first[i] if i < len(first) else ctx.choose(f'op{i}', len(OPS))
        op = OPS[oi]
        hist.append([op])
        box.pop('yield', None)
        box.pop('last', None)
        nsteps_before = len([h for h in hist if h[0] == 'body'])
        exc = res = None
        sendv = ctx.real(f'send{i}', -5, 5) if op == 'send' else None
        try:
            if op == 'next':
                res = r.next()
            elif op == 'send':
                res = r.next(sendv)
            elif op == 'play':
                r.play(clk.SystemClock)       # only queues the routine on the (NRT) clock; the scheduler is not run here
            else:
                getattr(r, op)()
        except (PathAbort, Inconclusive, Violation):
            raise
        except BaseException as e:   # noqa
            exc = e
        # ---- invariants after every operation
        if main.current_tt is not main.main_tt:
            raise Violation(f'after {op} the library\'s current thread is not the caller\'s (history {hist})', None,
                            data('current-thread'))
        ctx.prove(symx._real(symx._t(main.main_tt._m_seconds)) == symx._real(symx._t(t_main)), f'after {op} the caller\'s logical time '
                  'changed', data('logical-time'))
        if box.get('self-accepted'):
            raise Violation(f'{box["self-accepted"]} from inside the routine itself was accepted (history {hist})', None,
                            data('self-op'))
        if box.get('caller-accepted'):
            raise Violation(f'a nested routine could {box["caller-accepted"]} the running routine that called it '
                            f'(history {hist})', None, data('nested-op'))
        if box.get('nested-current'):
            raise Violation('after a nested routine returned, the current thread is not the calling routine', None,
                            data('nested-current'))
        if 'nested-time' in box:
            a, b_ = box.pop('nested-time')
            ctx.prove(symx._real(symx._t(a)) == symx._real(symx._t(b_)), 'a nested routine changed its caller\'s '
                      'logical time', data('nested-time'))
        # ---- reference automaton
        if op in ('next', 'send'):
            if ref.state == 'Paused':
                want = ('raise', 'PausedStream')
            elif ref.state == 'Done':
                if ref.terminal is None:
                    want = ('raise', 'StopStream')
                elif ref.stale_terminal:
                    want = ('either', 'StopStream', ref.terminal[1])
                else:
                    want = ('return', ref.terminal[1])
            else:
                b = box.get('last')
                if b is None:
                    raise Violation(f'{op} on a {ref.state} routine did not run the body', None, data('not-run'))
                if b in ('yield-num', 'yield-obj'):
                    want = ('return', box['yield'])
                    ref.state = 'Suspended'
                elif b == 'return':
                    want = ('raise', 'StopStream')
                    ref.state = 'Done'
                    ref.stale_terminal = ref.terminal is not None
                elif b in ('raise', 'raise-base'):
                    want = ('raise', 'Boom' if b == 'raise' else 'BaseBoom')
                    ref.state = 'Done'
                    ref.stale_terminal = ref.terminal is not None
                elif b == 'yield-and-reset':
                    want = ('return', box['yield'])
                    ref.state = 'Init'
                elif b == 'always-yield':
                    want = ('return', box['yield'])
                    ref.state = 'Done'
                    ref.terminal = ('set', box['yield'])
                    ref.stale_terminal = False
                else:
                    raise Inconclusive(f'body step ended with {b}')
                if op == 'send' and b in ('yield-num', 'yield-obj') and 'got' in box and False:
                    pass
            if want[0] == 'raise':
                if exc is None or type(exc).__name__ != want[1]:
                    raise Violation(f'{op} in state {ref.state}: expected {want[1]}, got '
                                    f'{type(exc).__name__ if exc else "value " + repr(res)} (history {hist})', None,
                                    data('result'))
            elif want[0] == 'either':
                if exc is not None and type(exc).__name__ != 'StopStream':
                    raise Violation(f'{op} on a finished routine raised {type(exc).__name__}', None, data('result'))
            else:
                if exc is not None:
                    raise Violation(f'{op}: expected a value, got {type(exc).__name__}: {exc} (history {hist})', None,
                                    data('result'))
                w = want[1]
                if w is marker or res is marker:
                    if res is not w:
                        raise Violation(f'{op} returned {res!r} instead of the yielded object', None, data('result'))
                else:
                    ctx.prove(symx._real(symx._t(res)) == symx._real(symx._t(w)), f'{op} did not return the yielded '
                              'value', data('value'))
        else:
            if exc is not None:
                raise Violation(f'{op}() from outside raised {type(exc).__name__}: {exc}', None, data('external-op'))
            if op == 'pause' and ref.state in ('Init', 'Suspended'):
                ref.state = 'Paused'
            elif op == 'resume' and ref.state == 'Paused':
                ref.state = 'Suspended'
            elif op == 'play' and ref.state in ('Init', 'Paused'):
                ref.state = 'Suspended'       # a finished, running or already playing routine is left alone
            elif op == 'stop':
                ref.state = 'Done'
                ref.stale_terminal = ref.terminal is not None
            elif op == 'reset':
                ref.state = 'Init'
                ref.stale_terminal = ref.terminal is not None
        if r.state.name != ref.state:
            raise Violation(f'after {op} the routine is {r.state.name}, the state machine says {ref.state} '
                            f'(history {hist})', None, data('state'))
        ctx.obligations += 1
        ctx.discharged += 1
    main.reset()
    ctx.note('routine')
    for h in hist:
        if h[0] == 'body':
            ctx.note('body:' + h[1])
    return {'history': list(hist)}


COPS = ['play-waiter', 'signal', 'test-true', 'test-false', 'unhang', 'run', 'late-unhang']


def condition_scenario(ctx, nops, flowvar):
    stm, main, clk = S()
    rec = {'mode': 'nrt', 'kind': 'condition', 'nops': nops, 'flowvar': flowvar}
    hist = []

    def data(sub):
        return {'key': f'c11:condition:{sub}', 'replay': dict(rec, sub=sub, history=list(hist))}
    main.reset()
    cond = stm.Condition()
    fv = stm.FlowVar()
    waiters = []          # dicts: resumed count, allowed (reference: may it resume?)
    test = False
    pending_wake = []     # waiters signalled (reference), to be resumed by the next scheduler run
    helpers = [0]
    try:
        for i in range(nops):
            op = COPS[ctx.choose(f'op{i}', len(COPS))]
            if flowvar and op in ('test-true', 'test-false', 'unhang', 'late-unhang'):
                op = {'test-true': 'set-value', 'test-false': 'signal', 'unhang': 'run', 'late-unhang': 'run'}[op]
            hist.append([op])
            if op == 'play-waiter':
                if len(waiters) >= 2:
                    raise PathAbort('waiter bound')
                w = {'resumed': 0, 'got': None, 'reached': False}
                waiters.append(w)

                def mk_body(w):
                    def body():
                        w['reached'] = True
                        if flowvar:
                            w['got'] = yield from fv.value
                        else:
                            yield from cond.wait()
                        w['resumed'] += 1
                        # who was resumed?  the outermost routine of the current chain must be the one playing on the clock
                        tt = main.current_tt
                        while tt.parent is not None and tt.parent is not main.main_tt:
                            tt = tt.parent
                        w['under'] = tt
                        w['resume_t'] = clk.SystemClock.seconds
                        yield 1
                        w['after'] = clk.SystemClock.seconds       # a later signal / unhang must not wake it early
                    return body
                body = mk_body(w)
                # the wait may be reached several routines deep (the routine playing on the clock embeds a routine
                # that embeds the one that waits): it is still the playing routine that must be parked and resumed
                depth = [1, 3][ctx.choose(f'depth{i}', 2)]
                hist[-1].append(depth)

                def wrap(inner_fn):
                    def outer_body():
                        r = stm.Routine(inner_fn)
                        while True:
                            try:
                                v = r.next()
                            except stm.StopStream:
                                return
                            yield v
                    return outer_body
                for _ in range(depth - 1):
                    body = wrap(body)
                w['routine'] = stm.Routine(body)
                w['routine'].play(clk.SystemClock)
                w['state'] = 'scheduled'
            elif op == 'signal':
                (fv.condition if flowvar else cond).signal()
                if test:
                    for w in waiters:
                        if w['state'] == 'waiting':
                            w['state'] = 'signalled'
            elif op == 'test-true':
                cond.test = True
                test = True
            elif op == 'test-false':
                cond.test = False
                test = False
            elif op == 'unhang':
                cond.unhang()
                for w in waiters:
                    if w['state'] == 'waiting':
                        w['state'] = 'signalled'
            elif op == 'set-value':
                if test:
                    raise PathAbort('rebind')
                fv.value = 42
                test = True
                for w in waiters:
                    if w['state'] == 'waiting':
                        w['state'] = 'signalled'
            elif op == 'late-unhang':
                # a helper routine releases the condition half a second from now (while a waiter resumed earlier
                # may be sleeping in its own `yield 1`: it must not be touched again)
                if helpers[0]:
                    raise PathAbort('one helper at a time')

                def helper():
                    yield 0.5
                    cond.unhang()
                stm.Routine(helper).play(clk.SystemClock)
                helpers[0] = 1
            elif op == 'run':
                main._clock_scheduler.run()
                late = helpers[0]
                helpers[0] = 0
                for w in waiters:
                    if w['state'] == 'scheduled':
                        # the routine reaches its wait: it queues if the test is false, otherwise it goes on
                        w['state'] = 'waiting' if not test else 'done'
                        w['expect'] = 0 if not test else 1
                    elif w['state'] == 'signalled':
                        w['state'] = 'done'
                        w['expect'] = 1
                    if late and w['state'] == 'waiting':
                        w['state'] = 'done'          # released by the helper during this run
                        w['expect'] = 1
            for k, w in enumerate(waiters):
                exp = w.get('expect', 0)
                if w['resumed'] != exp:
                    raise Violation(f'waiter {k} resumed {w["resumed"]} time(s), expected {exp} (test={test}, state '
                                    f'{w["state"]}, history {hist})', None, data('resumed'))
                if flowvar and w['resumed'] and w['got'] != 42:
                    raise Violation('flow variable delivered a wrong value', None, data('value'))
                if 'after' in w and w['after'] != w['resume_t'] + 1:
                    raise Violation(f'waiter {k}, resumed at {w["resume_t"]} and then waiting 1 s, was woken again at '
                                    f'{w["after"]} by a later signal / unhang although it was no longer waiting on the '
                                    f'condition (history {hist})', None, data('woken-again'))
                if w['resumed'] and w.get('under') is not w['routine']:
                    raise Violation(f'waiter {k} (waiting {hist} deep) was resumed through {w.get("under")!r}, not through '
                                    f'the routine that is playing on the clock: that routine stays parked for ever', None,
                                    data('wrong-thread'))
            ctx.obligations += 1
            ctx.discharged += 1
        # drain: run the scheduler; signalled waiters resume, waiting ones stay
        main._clock_scheduler.run()
        for k, w in enumerate(waiters):
            if w['state'] == 'scheduled':
                exp = 0 if (not test and not helpers[0]) else 1
            elif w['state'] == 'signalled':
                exp = 1
            elif w['state'] == 'waiting' and helpers[0]:
                exp = 1
            else:
                exp = w.get('expect', 0)
            if 'after' in w and w['after'] != w['resume_t'] + 1:
                raise Violation(f'waiter {k}, resumed at {w["resume_t"]} and then waiting 1 s, was woken again at '
                                f'{w["after"]} by a later signal / unhang although it was no longer waiting on the '
                                f'condition (history {hist})', None, data('woken-again'))
            if w['resumed'] != exp:
                raise Violation(f'at the end waiter {k} resumed {w["resumed"]} time(s), expected {exp} (history {hist})',
                                None, data('resumed'))
    finally:
        main.reset()
    ctx.note('flowvar' if flowvar else 'condition')
    return {'history': list(hist)}


def job(j):
    if j['kind'] == 'routine':
        h = lambda c: routine_scenario(c, j['nops'], j['first'])           # noqa
    else:
        h = lambda c: condition_scenario(c, j['nops'], j['flowvar'])       # noqa
    st = explore(h, max_paths=400000, timeout_ms=10000, stop_on_violation=True)
    d = st.as_dict()
    d['notes'] = {k: (1 if k.startswith('body:') else v) for k, v in d['notes'].items()}
    for v in d['violations']:
        rec = v['data']['replay']
        rec['values'] = dict(v['model'])
        rec['what'] = v['what']
    return d


class _CCtx:
    def __init__(self, vals):
        self.vals = vals
        self.obligations = self.discharged = 0

    def real(self, name, *a, **k):
        v = self.vals.get(name)
        return float(v) if v is not None else 0.5

    def choose(self, name, n):
        return int(self.vals.get(name, 0) or 0)

    def note(self, s):
        pass

    def prove(self, cond, what='', data=None):
        ok = cond if isinstance(cond, bool) else z3.is_true(z3.simplify(cond))
        if not ok:
            raise Violation(what, None, data)


def replay(rec):
    ctx = _CCtx(rec.get('values', {}))
    try:
        if rec['kind'] == 'routine':
            routine_scenario(ctx, rec['nops'], rec['first'])
        else:
            condition_scenario(ctx, rec['nops'], rec['flowvar'])
    except Violation as v:
        return v.what
    except PathAbort:
        return None
    return None


def main(tier, seed):
    stm, main_, clk = S()
    chk = Check(PID, 'model_checking', tier, seed)
    chk.functions = src_hash([stm.Routine.next, stm.Routine.play, stm.Routine.pause, stm.Routine.resume,
                              stm.Routine.stop, stm.Routine.reset, stm.Condition.wait, stm.Condition.signal,
                              stm.Condition.unhang, stm.FlowVar])
    nops = 3 if tier == 'quick' else 4
    # thorough: 4 operations, except for histories that begin with next / send (a running body from the first
    # operation on: those four families alone exceed 400 000 paths each and are kept at 3)
    jobs = [dict(kind='routine', nops=(3 if (a in (0, 1) and tier != 'quick') else nops), first=[a, b])
            for a in range(len(OPS)) for b in range(len(OPS))]
    jobs += [dict(kind='condition', nops=5 if tier == 'quick' else 6, flowvar=f) for f in (0, 1)]
    for r in run_jobs('vf.props.c11', 'job', jobs, 'nrt'):
        chk.add('histories', r)
    chk.require_notes('histories', ['routine', 'condition', 'flowvar'] + ['body:' + b for b in BEHAV])
    chk.bounds = {'routine_histories': f'{nops} external operations over {OPS} (thorough: 3 when the history begins with '
                                       f'next / send); every body step behaviour from {BEHAV}',
                  'condition_histories': '5/6 operations over play-waiter (<= 2 waiters), signal, test true/false, unhang, '
                                         'scheduler run; FlowVar: play-waiter, signal, set value, run',
                  'outside': 'nesting deeper than 1; play/pause/resume interplay with real-time clocks (C08)'}
    chk.assumptions = ['yielded / sent values are exact reals', 'after reset() a finished routine may either raise '
                       'StopStream or return a terminal value recorded before the reset (the statement allows both)']
    return chk.finish(explanation='bounded model checking of the real Routine / Condition / FlowVar against a reference '
                                  'automaton, finite control through the decision tree, values by z3')
