"""C16 -- bus/buffer/node-id allocation is safe and complete.

Part A (ContiguousBlockAllocator, the class Server installs): inductive step over *canonical* states.  Every block
layout with <= K blocks (sizes 1..S, any used/free pattern, top remainder 0..R) is built through the public API by
its canonical history (allocs in address order, frees ascending); then one arbitrary operation (alloc n, free of any
live block, double free) runs with `choice` and the iteration order of the free-lists chosen adversarially by the
decision tree.  Obligations: result safe and complete w.r.t. an interval-set reference, and the post-state's normal
form equals the normal form of the canonical state of the post layout.  By induction every reachable state (within
the size bound) is canonical, so the step covers histories of any length.  All quantities here are small integers the
code uses as list indices: the space is finite and enumerated completely by the decision tree (stated as such).

Part B (NodeIDAllocator): symbolic step from an arbitrary `_temp` in the window, arbitrary user 0..31 and init_temp:
z3 proves id == temp + user*2^26, id inside the user's 26-bit range, cyclic successor, and (lemma) k-step closed form
=> pairwise distinct ids over a full window.
"""
import itertools
import z3
from .. import symx
from ..symx import explore, Violation, PathAbort
from ..run import Check, run_jobs, src_hash

PID = 'C16'


def _eng():
    from sc3.synth import _engine
    return _engine


class AdvDict(dict):
    """dict whose items() order is chosen by the decision tree (models every insertion history)."""

    def items(self):
        it = list(dict.items(self))
        ctx = symx.Ctx.cur
        out = []
        while it:
            i = ctx.choose('dictorder', len(it)) if ctx is not None else 0
            out.append(it.pop(i))
        return out


class BiShim:
    def __init__(self, real):
        self._real = real

    def __getattr__(self, n):
        return getattr(self._real, n)

    @staticmethod
    def choice(lst):
        ctx = symx.Ctx.cur
        lst = sorted(lst, key=lambda b: b.start)
        return lst[ctx.choose('choice', len(lst)) if ctx is not None else 0]


def nf(al):
    arr = tuple((i, b.start, b.size, b.used) for i, b in enumerate(al._array) if b is not None)
    freed = tuple(sorted((sz, tuple(sorted(b.start for b in st))) for sz, st in dict.items(al._freed) if st))
    return (arr, al.top, freed)


def _ref_check_alloc(r, n, live, lo, hi, data):
    used = set()
    for st, s in live:
        used.update(range(st, st + s))
    run = best = 0
    for a in range(lo, hi):
        run = 0 if a in used else run + 1
        best = max(best, run)
    if r is None:
        if best >= n:
            raise Violation(f'alloc({n}) reports no space although a free run of {best} exists', None,
                            data('alloc-incomplete'))
        return
    if not isinstance(r, int) or r < lo or r + n > hi:
        raise Violation(f'alloc({n}) returned {r}: outside the partition [{lo},{hi})', None, data('alloc-outside'))
    if any(a in used for a in range(r, r + n)):
        raise Violation(f'alloc({n}) returned {r}: overlaps a live range', None, data('alloc-overlap'))


def job_reach(job):
    """Explicit reachable-state exploration of the real allocator object for one configuration.

    state = (allocator object, live ranges, addresses freed so far); key = normal form of the internal representation
    (+ live, + ever-freed).  Transitions: alloc(n) for every n, free of every live block, free of every address freed
    before (double free), free(None); the library's random tie-break and the iteration order of its free-list dict
    are adversarial choices of the decision tree.  Every history of any length is covered for this configuration.
    """
    import copy
    eng = _eng()
    size, pos, cid, N = job['size'], job['pos'], job['cid'], job['N']
    off = size * cid
    lo, hi = off + pos, off + size
    real_bi = eng.bi
    init = eng.ContiguousBlockAllocator(size, pos, off)
    states = {}            # key -> (allocator, live, freed, history)
    k0 = (nf(init), (), ())
    states[k0] = (init, (), (), ())
    frontier = [k0]
    tot = symx.Stats()
    ntrans = 0
    max_states = job.get('max_states', 200000)
    cidc = 'client0' if cid == 0 else 'clientN'
    while frontier:
        nxt = []
        for key in frontier:
            al0, live0, freed0, hist0 = states[key]
            ops = [('alloc', n) for n in range(1, min(N, hi - lo) + 1)]
            ops += [('free', st) for st, _ in live0]
            ops += [('double-free', a) for a in freed0 if a not in [st for st, _ in live0]]
            ops += [('free-none', None)]
            for op in ops:
                succ = []

                def harness(ctx, op=op):
                    al = copy.deepcopy(al0)
                    al._freed = AdvDict(al._freed)
                    live = list(live0)
                    freed = set(freed0)
                    hist = hist0 + (op,)

                    def data(sub):
                        return {'key': f'cba:{cidc}:{sub}',
                                'replay': {'mode': 'nrt', 'kind': 'cba', 'size': size, 'pos': pos, 'cid': cid,
                                           'history': [list(h) for h in hist]}}
                    eng.bi = BiShim(real_bi)
                    try:
                        if op[0] == 'alloc':
                            r = al.alloc(op[1])
                            _ref_check_alloc(r, op[1], live, lo, hi, data)
                            if r is not None:
                                live = sorted(live + [(r, op[1])])
                        elif op[0] == 'free':
                            al.free(op[1])
                            live = [x for x in live if x[0] != op[1]]
                            freed.add(op[1])
                        else:
                            al.free(op[1])
                    finally:
                        eng.bi = real_bi
                    # the allocator's own view of live blocks agrees with the reference
                    mine = sorted((b.start, b.size) for b in al.blocks())
                    if mine != live:
                        raise Violation(f'after {op}: allocator reports live blocks {mine}, reference {live}', None,
                                        data('blocks-' + op[0]))
                    al._freed = dict(dict.items(al._freed))
                    ctx.obligations += 1
                    ctx.discharged += 1
                    ctx.note(op[0])
                    succ.append((al, tuple(live), tuple(sorted(freed)), hist))
                    return None
                st = explore(harness, max_paths=10000, stop_on_violation=True)
                tot.merge(st)
                ntrans += st.paths
                if st.violations or st.inconclusive:
                    d = tot.as_dict()
                    d['states'] = len(states)
                    d['transitions'] = ntrans
                    return d
                for al, live, freed, hist in succ:
                    k = (nf(al), live, freed)
                    if k not in states:
                        states[k] = (al, live, freed, hist)
                        nxt.append(k)
        frontier = nxt
        if len(states) > max_states:
            tot.truncated = True
            break
    d = tot.as_dict()
    d['states'] = len(states)
    d['transitions'] = ntrans
    d['samples'] = [{'config': job, 'reachable_states': len(states), 'transitions': ntrans,
                     'a_deep_history': [list(h) for h in max((s[3] for s in states.values()), key=len)]}]
    return d


# ------------------------------------------------------------------ node ids

def job_nodeid(job):
    eng = _eng()
    from sc3.base import builtins as sbi

    def harness(ctx):
        user = ctx.choose('user', 32) if job.get('enum_user') else None
        init = ctx.int('init_temp', 2, 0x03FFFFFE)
        u = user if user is not None else job['user']
        al = eng.NodeIDAllocator(u, init)
        x = ctx.int('temp', 0, 0x03FFFFFF)
        ctx.assume(x.e >= init.e)
        al._temp = x
        with symx.shims():
            r = al.alloc()
        lo, hi = u << 26, (u + 1) << 26
        data = {'key': 'nodeid', 'replay': {'mode': 'none', 'kind': 'nodeid', 'user': u,
                                            'names': ['init_temp', 'temp']}}
        re_ = symx._t(r)
        ctx.prove(re_ == x.e + lo, 'node id is not temp | (user << 26)', data)
        ctx.prove(z3.And(re_ >= lo, re_ < hi), "node id outside the client's id range", data)
        nx = symx._t(al._temp)
        ctx.prove(nx == z3.If(x.e < 0x03FFFFFF, x.e + 1, init.e), 'next temp id is not the cyclic successor', data)
        ctx.prove(z3.And(nx >= init.e, nx <= 0x03FFFFFF), 'next temp id leaves the window', data)
        return {'user': u, 'id': str(re_)}

    st = explore(harness, max_paths=10000)
    d = st.as_dict()
    for v in d['violations']:
        rec = v['data']['replay']
        m = v.get('model', {})
        rec['init_temp'] = int(m.get('init_temp', 1000))
        rec['temp'] = int(m.get('temp', 1000))
    return d


def lemma_distinct():
    """k-step closed form of the cyclic successor => ids of a full window are pairwise distinct (pure z3)."""
    x0, lo, hi, k, j = z3.Ints('x0 lo hi k j')
    W = hi - lo + 1

    def at(n):
        return z3.If(x0 + n <= hi, x0 + n, x0 + n - W)

    def succ(x):
        return z3.If(x < hi, x + 1, lo)
    pre = z3.And(lo <= x0, x0 <= hi, lo < hi)
    res = []
    s = z3.Solver()
    s.set('timeout', 20000)
    # induction step of the closed form
    s.add(pre, k >= 0, k + 1 < W, z3.Not(succ(at(k)) == at(k + 1)))
    res.append(('closed-form step', str(s.check())))
    s = z3.Solver()
    s.set('timeout', 20000)
    s.add(pre, 0 <= j, j < k, k < W, at(j) == at(k))
    res.append(('distinct within a window', str(s.check())))
    s = z3.Solver()
    s.set('timeout', 20000)
    s.add(pre, 0 <= k, k < W, z3.Not(z3.And(at(k) >= lo, at(k) <= hi)))
    res.append(('stays in window', str(s.check())))
    return res


# ------------------------------------------------------------------ replay

def replay(rec):
    eng = _eng()
    if rec['kind'] == 'nodeid':
        al = eng.NodeIDAllocator(rec['user'], rec['init_temp'])
        al._temp = rec['temp']
        # reach the state through the public API when cheap, otherwise set the cursor (documented in DESIGN)
        r = al.alloc()
        u = rec['user']
        if r != rec['temp'] + (u << 26) or not (u << 26 <= r < (u + 1) << 26):
            return f'alloc() from temp={rec["temp"]} user={u} returned {r:#x}'
        exp = rec['temp'] + 1 if rec['temp'] < 0x03FFFFFF else rec['init_temp']
        if al._temp != exp:
            return f'next temp after {rec["temp"]:#x} is {al._temp:#x}, expected {exp:#x}'
        return None
    size, pos, cid, hist = rec['size'], rec['pos'], rec['cid'], rec['history']
    off = size * cid
    lo, hi = off + pos, off + size
    # the library breaks ties at random: the history is repeated so that every tie-break gets its chance
    for attempt in range(300):
        al = eng.ContiguousBlockAllocator(size, pos, off)
        live = []
        placed = {}
        for i, op in enumerate(hist):
            if op[0] == 'alloc':
                msg = _concrete_alloc(al, live, op[1], lo, hi)
                if msg:
                    return f'history {hist[:i + 1]}: {msg}'
            elif op[0] == 'free':
                if op[1] not in [st for st, _ in live]:
                    break       # a different tie-break was taken earlier: this attempt left the recorded history
                al.free(op[1])
                live = [x for x in live if x[0] != op[1]]
            else:
                if op[1] in [st for st, _ in live]:
                    break
                al.free(op[1])
            mine = sorted((b.start, b.size) for b in al.blocks())
            if mine != sorted(live):
                return f'history {hist[:i + 1]}: allocator reports live blocks {mine}, reference {sorted(live)}'
    return None


def _concrete_alloc(al, live, n, lo, hi):
    r = al.alloc(n)
    used = set()
    for st, s in live:
        used.update(range(st, st + s))
    run = best = 0
    for a in range(lo, hi):
        run = 0 if a in used else run + 1
        best = max(best, run)
    if r is None:
        if best >= n:
            return f'alloc({n}) -> None although a free run of {best} exists (live={live}, partition=[{lo},{hi}))'
        return None
    if r < lo or r + n > hi:
        return f'alloc({n}) -> {r} outside [{lo},{hi})'
    if any(a in used for a in range(r, r + n)):
        return f'alloc({n}) -> {r} overlaps live {live}'
    live.append((r, n))
    live.sort()
    return None


# ------------------------------------------------------------------ main

def main(tier, seed):
    eng = _eng()
    chk = Check(PID, 'model_checking', tier, seed)
    chk.functions = src_hash([eng.ContiguousBlockAllocator, eng.ContiguousBlock, eng.NodeIDAllocator])
    if tier == 'quick':
        sizes, N, cids, poss = (1, 2, 3, 4, 5), 5, (0, 1, 2), (0, 1)
    else:
        sizes, N, cids, poss = (1, 2, 3, 4, 5, 6, 7), 7, (0, 1, 2, 3), (0, 1, 2)
    chk.bounds = {'partition_sizes': list(sizes), 'alloc_n': f'1..min({N}, partition)', 'client_ids': list(cids),
                  'reserved_pos': list(poss), 'history_length': 'unbounded (reachable-state fixpoint per configuration)',
                  'node_ids': 'temp, init_temp symbolic over the whole 26-bit window; user 0..31',
                  'outside': 'reserve(); PowerOfTwo/LRU/Stack/Ring allocators (not installed by Server); partitions '
                             'computed by Server._new_*_allocators for symbolic option values; partitions larger than '
                             'the listed sizes'}
    chk.assumptions = ['block allocator: finite domain, reachable states enumerated to a fixpoint through the decision '
                       'tree (no sampling); bi.choice and the free-list dict iteration order are adversarial choices',
                       'double free = free of an address that was freed earlier in the same history and is not '
                       'currently the start of a live block']
    jobs = [dict(size=sz, pos=p, cid=c, N=N) for sz in sizes for p in poss for c in cids if p < sz]
    jobs.sort(key=lambda j: -j['size'])
    nst = ntr = 0
    for r in run_jobs('vf.props.c16', 'job_reach', jobs, 'none'):
        chk.add('block_allocator_reach', r)
        nst += r.get('states', 0)
        ntr += r.get('transitions', 0)
    chk.states, chk.transitions = nst, ntr
    chk.require_notes('block_allocator_reach', ['alloc', 'free', 'double-free'])
    for r in run_jobs('vf.props.c16', 'job_nodeid', [dict(user=u) for u in range(32)], 'none'):
        chk.add('node_id_step', r)
    lem = lemma_distinct()
    chk.extra['lemmas'] = lem
    part = chk.parts.setdefault('node_id_lemmas', dict(jobs=1, paths=0, aborted=0, queries=0, solver_s=0.0,
                                                       obligations=0, discharged=0, nontrivial=0, notes={}, wall=0.0))
    for name, res in lem:
        part['obligations'] += 1
        part['queries'] += 1
        if res == 'unsat':
            part['discharged'] += 1
        else:
            chk.inconclusive.append(f'lemma "{name}" not proved: {res}')
    return chk.finish(coverage_extra={'lemmas': lem},
                      explanation='inductive step over canonical allocator states (finite, complete) + symbolic '
                                  'node-id step and window lemmas (z3)')
