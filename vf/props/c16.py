"""C16 -- bus/buffer/node-id allocation is safe and complete.

Part A (ContiguousBlockAllocator, the class Server installs): inductive step over *canonical* states.  Every block
layout with <= K blocks (sizes 1..S, any used/free pattern, top remainder 0..R) is built through the public API by
its canonical history (allocs in address order, frees ascending); then one arbitrary operation (alloc n, free of any
live block, double free) runs with `choice` and the iteration order of the free-lists chosen adversarially by the
decision tree.  Obligations: result safe and complete w.r.t. an interval-set reference, and the post-state's normal
form equals the normal form of the canonical state of the post layout.  By induction every reachable state (within
the size bound) is canonical, so the step covers histories of any length.  All quantities here are small integers the
code uses as list indices: the space is finite and enumerated completely by the decision tree (stated as such).

Part B (NodeIDAllocator): symbolic step from an arbitrary `_temp` in the window, arbitrary user 0..31 and init_temp:
z3 proves id == temp + user*2^26, id inside the user's 26-bit range, cyclic successor, and (lemma) k-step closed form
=> pairwise distinct ids over a full window.
"""
import itertools
import z3
from .. import symx
from ..symx import explore, Violation, PathAbort
from ..run import Check, run_jobs, src_hash

PID = 'C16'


def _eng():
    from sc3.synth import _engine
    return _engine


class AdvDict(dict):
    """dict whose items() order is chosen by the decision tree (models every insertion history)."""

    def items(self):
        it = list(dict.items(self))
        ctx = symx.Ctx.cur
        out = []
        while it:
            i = ctx.choose('dictorder', len(it)) if ctx is not None else 0
            out.append(it.pop(i))
        return out


class BiShim:
    def __init__(self, real):
        self._real = real

    def __getattr__(self, n):
        return getattr(self._real, n)

    @staticmethod
    def choice(lst):
        ctx = symx.Ctx.cur
        lst = sorted(lst, key=lambda b: b.start)
        return lst[ctx.choose('choice', len(lst)) if ctx is not None else 0]


def nf(al):
    arr = tuple((i, b.start, b.size, b.used) for i, b in enumerate(al._array) if b is not None)
    freed = tuple(sorted((sz, tuple(sorted(b.start for b in st))) for sz, st in dict.items(al._freed) if st))
    return (arr, al.top, freed)


def _ref_check_alloc(r, n, live, lo, hi, data):
    used = set()
    for st, s in live:
        used.update(range(st, st + s))
    run = best = 0
    for a in range(lo, hi):
        run = 0 if a in used else run + 1
        best = max(best, run)
    if r is None:
        if best >= n:
            raise Violation(f'alloc({n}) reports no space although a free run of {best} exists', None,
                            data('alloc-incomplete'))
        return
    if not isinstance(r, int) or r < lo or r + n > hi:
        raise Violation(f'alloc({n}) returned {r}: outside the partition [{lo},{hi})', None, data('alloc-outside'))
    if any(a in used for a in range(r, r + n)):
        raise Violation(f'alloc({n}) returned {r}: overlaps a live range', None, data('alloc-overlap'))


def job_reach(job):
    """Explicit reachable-state exploration of the real allocator object for one configuration.

    state = (allocator object, live ranges, addresses freed so far); key = normal form of the internal representation
    (+ live, + ever-freed).  Transitions: alloc(n) for every n, free of every live block, free of every address freed
    before (double free), free(None); the library's random tie-break and the iteration order of its free-list dict
    are adversarial choices of the decision tree.  Every history of any length is covered for this configuration.
    """
    import copy
    eng = _eng()
    size, pos, cid, N = job['size'], job['pos'], job['cid'], job['N']
    off = size * cid
    lo, hi = off + pos, off + size
    real_bi = eng.bi
    init = eng.ContiguousBlockAllocator(size, pos, off)
    states = {}            # key -> (allocator, live, freed, history)
    k0 = (nf(init), (), ())
    states[k0] = (init, (), (), ())
    frontier = [k0]
    tot = symx.Stats()
    ntrans = 0
    max_states = job.get('max_states', 200000)
    cidc = 'client0' if cid == 0 else 'clientN'
    while frontier:
        nxt = []
        for key in frontier:
            al0, live0, freed0, hist0 = states[key]
            ops = [('alloc', n) for n in range(1, min(N, hi - lo) + 1)]
            ops += [('free', st) for st, _ in live0]
            ops += [('double-free', a) for a in freed0 if a not in [st for st, _ in live0]]
            ops += [('free-none', None)]
            for op in ops:
                succ = []

                def harness(ctx, op=op):
                    al = copy.deepcopy(al0)
                    al._freed = AdvDict(al._freed)
                    live = list(live0)
                    freed = set(freed0)
                    hist = hist0 + (op,)

                    def data(sub):
                        return {'key': f'cba:{cidc}:{sub}',
                                'replay': {'mode': 'nrt', 'kind': 'cba', 'size': size, 'pos': pos, 'cid': cid,
                                           'history': [list(h) for h in hist]}}
                    eng.bi = BiShim(real_bi)
                    try:
                        if op[0] == 'alloc':
                            r = al.alloc(op[1])
                            _ref_check_alloc(r, op[1], live, lo, hi, data)
                            if r is not None:
                                live = sorted(live + [(r, op[1])])
                        elif op[0] == 'free':
                            al.free(op[1])
                            live = [x for x in live if x[0] != op[1]]
                            freed.add(op[1])
                        else:
                            al.free(op[1])
                    finally:
                        eng.bi = real_bi
                    # the allocator's own view of live blocks agrees with the reference
                    mine = sorted((b.start, b.size) for b in al.blocks())
                    if mine != live:
                        raise Violation(f'after {op}: allocator reports live blocks {mine}, reference {live}', None,
                                        data('blocks-' + op[0]))
                    al._freed = dict(dict.items(al._freed))
                    ctx.obligations += 1
                    ctx.discharged += 1
                    ctx.note(op[0])
                    succ.append((al, tuple(live), tuple(sorted(freed)), hist))
                    return None
                st = explore(harness, max_paths=10000, stop_on_violation=True)
                tot.merge(st)
                ntrans += st.paths
                if st.violations or st.inconclusive:
                    d = tot.as_dict()
                    d['states'] = len(states)
                    d['transitions'] = ntrans
                    return d
                for al, live, freed, hist in succ:
                    k = (nf(al), live, freed)
                    if k not in states:
                        states[k] = (al, live, freed, hist)
                        nxt.append(k)
        frontier = nxt
        if len(states) > max_states:
            tot.truncated = True
            break
    d = tot.as_dict()
    d['states'] = len(states)
    d['transitions'] = ntrans
    d['samples'] = [{'config': job, 'reachable_states': len(states), 'transitions': ntrans,
                     'a_deep_history': [list(h) for h in max((s[3] for s in states.values()), key=len)]}]
    return d


# ------------------------------------------------------------------ node ids

def job_nodeid(job):
    eng = _eng()
    from sc3.base import builtins as sbi

    def harness(ctx):
        user = ctx.choose('user', 32) if job.get('enum_user') else None
        init = ctx.int('init_temp', 2, 0x03FFFFFE)
        u = user if user is not None else job['user']
        al = eng.NodeIDAllocator(u, init)
        x = ctx.int('temp', 0, 0x03FFFFFF)
        ctx.assume(x.e >= init.e)
        al._temp = x
        with symx.shims():
            r = al.alloc()
        lo, hi = u << 26, (u + 1) << 26
        data = {'key': 'nodeid', 'replay': {'mode': 'none', 'kind': 'nodeid', 'user': u,
                                            'names': ['init_temp', 'temp']}}
        re_ = symx._t(r)
        ctx.prove(re_ == x.e + lo, 'node id is not temp | (user << 26)', data)
        ctx.prove(z3.And(re_ >= lo, re_ < hi), "node id outside the client's id range", data)
        nx = symx._t(al._temp)
        ctx.prove(nx == z3.If(x.e < 0x03FFFFFF, x.e + 1, init.e), 'next temp id is not the cyclic successor', data)
        ctx.prove(z3.And(nx >= init.e, nx <= 0x03FFFFFF), 'next temp id leaves the window', data)
        return {'user': u, 'id': str(re_)}

    st = explore(harness, max_paths=10000)
    d = st.as_dict()
    for v in d['violations']:
        rec = v['data']['replay']
        m = v.get('model', {})
        rec['init_temp'] = int(m.get('init_temp', 1000))
        rec['temp'] = int(m.get('temp', 1000))
    return d


def lemma_distinct():
    """k-step closed form of the cyclic successor => ids of a full window are pairwise distinct (pure z3)."""
    x0, lo, hi, k, j = z3.Ints('x0 lo hi k j')
    W = hi - lo + 1

    def at(n):
        return z3.If(x0 + n <= hi, x0 + n, x0 + n - W)

    def succ(x):
        return z3.If(x < hi, x + 1, lo)
    pre = z3.And(lo <= x0, x0 <= hi, lo < hi)
    res = []
    s = z3.Solver()
    s.set('timeout', 20000)
    # induction step of the closed form
    s.add(pre, k >= 0, k + 1 < W, z3.Not(succ(at(k)) == at(k + 1)))
    res.append(('closed-form step', str(s.check())))
    s = z3.Solver()
    s.set('timeout', 20000)
    s.add(pre, 0 <= j, j < k, k < W, at(j) == at(k))
    res.append(('distinct within a window', str(s.check())))
    s = z3.Solver()
    s.set('timeout', 20000)
    s.add(pre, 0 <= k, k < W, z3.Not(z3.And(at(k) >= lo, at(k) <= hi)))
    res.append(('stays in window', str(s.check())))
    return res


# ------------------------------------------------------------------ replay

def server_scenario(ctx):
    """the partitions Server computes from its options: every bus / buffer index handed out to client id c lies inside
    the server's range for that resource, ranges of different client ids are disjoint, and a client gets its whole share"""
    from sc3.synth import server as srv, bus as bus_, buffer as buf_
    cfg = dict(audio=[8, 12, 13][ctx.choose('audio', 3)], io=[(2, 2), (0, 2), (1, 1)][ctx.choose('io', 3)],
               logins=1 + ctx.choose('logins', 3), res_a=ctx.choose('res_a', 2), control=[6, 8][ctx.choose('control', 2)],
               res_c=ctx.choose('res_c', 2), buffers=[6, 8][ctx.choose('buffers', 2)], res_b=ctx.choose('res_b', 2))
    # the number of logins the running server REPORTS when the client registers may differ from the client's option
    # (None: nothing reported, the option counts)
    cfg['reported'] = [None, 1, 2, 3][ctx.choose('reported', 4)]
    fp_ = sum(cfg['io'])
    nl_ = cfg['reported'] or cfg['logins']
    if min(min((cfg['audio'] - fp_) // k_ - cfg['res_a'], cfg['control'] // k_ - cfg['res_c'],
               cfg['buffers'] // k_ - cfg['res_b']) for k_ in (nl_, cfg['logins'])) <= 0:
        raise PathAbort('degenerate options: a client share not larger than its reserved count')
    msg = server_partitions(cfg)
    if msg:
        raise Violation(msg, None, {'key': 'c16:server:partition', 'replay': {'kind': 'server', 'mode': 'nrt', 'cfg': cfg}})
    ctx.obligations += 1
    ctx.discharged += 1
    ctx.note('server')
    return {'cfg': cfg}


_SRV_N = [0]


def server_partitions(cfg):
    from sc3.synth import server as srv, bus as bus_, buffer as buf_
    from sc3.base import netaddr as nad
    _SRV_N[0] += 1
    opt = srv.ServerOptions()
    opt.audio_buses, opt.control_buses, opt.buffers = cfg['audio'], cfg['control'], cfg['buffers']
    opt.input_channels, opt.output_channels = cfg['io']
    opt.max_logins = cfg['logins']
    opt.reserved_audio_buses, opt.reserved_control_buses, opt.reserved_buffers = cfg['res_a'], cfg['res_c'], cfg['res_b']
    s = srv.Server(f'vf{_SRV_N[0]}', nad.NetAddr('127.0.0.1', 30000 + _SRV_N[0] % 20000), opt)
    try:
        fp = opt.first_private_bus()
        got = {'audio': {}, 'control': {}, 'buffer': {}}
        nl = cfg.get('reported') or cfg['logins']
        for cid in range(min(nl, cfg['logins'])):
            if cfg.get('reported'):
                s._status_watcher._handle_login_done(cid, cfg['reported'])
            else:
                s._set_client_id(cid)
            if s.client_id != cid:
                return f'client id {cid} refused with max_logins {cfg["logins"]}'
            for kind, mk in (('audio', lambda: bus_.AudioBus(1, s).index), ('control', lambda: bus_.ControlBus(1, s).index),
                             ('buffer', lambda: s._next_buffer_number(1))):
                idx = []
                for _ in range(64):
                    try:
                        v = mk()
                    except Exception:
                        break
                    if v is None:
                        break
                    idx.append(v)
                got[kind][cid] = idx
        rng = {'audio': (fp, cfg['audio']), 'control': (0, cfg['control']), 'buffer': (0, cfg['buffers'])}
        share = {'audio': (cfg['audio'] - fp) // nl - cfg['res_a'],
                 'control': cfg['control'] // nl - cfg['res_c'],
                 'buffer': cfg['buffers'] // nl - cfg['res_b']}
        for kind in got:
            lo, hi = rng[kind]
            seen = {}
            for cid, idx in got[kind].items():
                if len(set(idx)) != len(idx):
                    return f'{kind} index handed out twice to client {cid}: {idx} (options {cfg})'
                for v in idx:
                    if not (lo <= v < hi):
                        return f'{kind} index {v} handed to client {cid} lies outside the server\'s {kind} range ' \
                               f'[{lo}, {hi}) (options {cfg})'
                    if v in seen:
                        return f'{kind} index {v} handed to clients {seen[v]} and {cid} (options {cfg})'
                    seen[v] = cid
                if len(idx) < max(0, share[kind]):
                    return f'client {cid} got only {len(idx)} of its {share[kind]} {kind} indices (options {cfg})'
        return None
    finally:
        try:
            srv.Server.all.discard(s)
            srv.Server.named.pop(s.name, None)
        except Exception:
            pass


OBJ_KINDS = ('buffer', 'audio', 'control')


def objects_history(kind, hist, cid=0, logins=2):
    """run a history of object-level operations (('new', size) / ('free', k): free the k-th object made, live or not)
    on a fresh server; after every step the index ranges of the live objects must be pairwise disjoint"""
    from sc3.synth import server as srv, bus as bus_, buffer as buf_
    from sc3.base import netaddr as nad
    _SRV_N[0] += 1
    opt = srv.ServerOptions()
    opt.max_logins = logins
    s = srv.Server(f'vfo{_SRV_N[0]}', nad.NetAddr('127.0.0.1', 30000 + _SRV_N[0] % 20000), opt)
    try:
        s._set_client_id(cid)
        objs = []       # [object, size, live]
        for i, op in enumerate(hist):
            if op[0] == 'new':
                n = op[1]
                if kind == 'buffer':
                    o = buf_.Buffer.new_consecutive(n, 8, 1, s) if n > 1 else [buf_.Buffer(8, 1, s)]
                    start = o[0].bufnum
                    o = o[0] if n == 1 else o
                else:
                    o = (bus_.AudioBus if kind == 'audio' else bus_.ControlBus)(n, s)
                    start = o.index
                for q, qstart, qn, live in objs:
                    if live and not (start + n <= qstart or qstart + qn <= start):
                        return f'{kind} history {hist[:i + 1]}: the new object got [{start}, {start + n}) which overlaps ' \
                               f'the live object at [{qstart}, {qstart + qn})'
                objs.append([o, start, n, True])
            else:
                k = op[1]
                if k >= len(objs):
                    continue
                o = objs[k][0]
                if isinstance(o, list):
                    if objs[k][3]:
                        # consecutive buffers are freed as a group through the allocator (documented limitation)
                        s._buffer_allocator.free(objs[k][1])
                else:
                    o.free()
                objs[k][3] = False
        return None
    finally:
        try:
            srv.Server.all.discard(s)
            srv.Server.named.pop(s.name, None)
        except Exception:
            pass


def objects_scenario(ctx):
    """histories of Buffer / AudioBus / ControlBus objects (new, free, free again, new ...) of bounded length on one
    client: no object is handed an index that a live object still owns"""
    kind = OBJ_KINDS[ctx.choose('kind', 3)]
    cid = ctx.choose('cid', 2)
    n = 4 + ctx.choose('len', 2)
    hist = []
    made = 0
    for i in range(n):
        if made == 0 or ctx.choose(f'op{i}', 2) == 0:
            hist.append(('new', 1 + ctx.choose(f'size{i}', 2) if kind != 'buffer' else 1))
            made += 1
        else:
            hist.append(('free', ctx.choose(f'k{i}', made)))
    msg = objects_history(kind, hist, cid)
    if msg:
        raise Violation(msg, None, {'key': f'c16:objects:{kind}',
                                    'replay': {'kind': 'objects', 'mode': 'nrt', 'okind': kind, 'hist': hist, 'cid': cid}})
    ctx.obligations += 1
    ctx.discharged += 1
    ctx.note('objects')
    return {'hist': hist}


def job_objects(job):
    st = explore(objects_scenario, max_paths=60000, timeout_ms=5000, stop_on_violation=True)
    return st.as_dict()


def job_server(job):
    st = explore(server_scenario, max_paths=20000, timeout_ms=5000, stop_on_violation=True)
    return st.as_dict()


def replay(rec):
    if rec.get('kind') == 'server':
        return server_partitions(rec['cfg'])
    if rec.get('kind') == 'objects':
        return objects_history(rec['okind'], [tuple(x) for x in rec['hist']], rec['cid'])
    eng = _eng()
    if rec['kind'] == 'nodeid':
        al = eng.NodeIDAllocator(rec['user'], rec['init_temp'])
        al._temp = rec['temp']
        # reach the state through the public API when cheap, otherwise set the cursor (documented in DESIGN)
        r = al.alloc()
        u = rec['user']
        if r != rec['temp'] + (u << 26) or not (u << 26 <= r < (u + 1) << 26):
            return f'alloc() from temp={rec["temp"]} user={u} returned {r:#x}'
        exp = rec['temp'] + 1 if rec['temp'] < 0x03FFFFFF else rec['init_temp']
        if al._temp != exp:
            return f'next temp after {rec["temp"]:#x} is {al._temp:#x}, expected {exp:#x}'
        return None
    size, pos, cid, hist = rec['size'], rec['pos'], rec['cid'], rec['history']
    off = size * cid
    lo, hi = off + pos, off + size
    # the library breaks ties at random: the history is repeated so that every tie-break gets its chance
    for attempt in range(300):
        al = eng.ContiguousBlockAllocator(size, pos, off)
        live = []
        placed = {}
        for i, op in enumerate(hist):
            if op[0] == 'alloc':
                msg = _concrete_alloc(al, live, op[1], lo, hi)
                if msg:
                    return f'history {hist[:i + 1]}: {msg}'
            elif op[0] == 'free':
                if op[1] not in [st for st, _ in live]:
                    break       # a different tie-break was taken earlier: this attempt left the recorded history
                al.free(op[1])
                live = [x for x in live if x[0] != op[1]]
            else:
                if op[1] in [st for st, _ in live]:
                    break
                al.free(op[1])
            mine = sorted((b.start, b.size) for b in al.blocks())
            if mine != sorted(live):
                return f'history {hist[:i + 1]}: allocator reports live blocks {mine}, reference {sorted(live)}'
    return None


def _concrete_alloc(al, live, n, lo, hi):
    r = al.alloc(n)
    used = set()
    for st, s in live:
        used.update(range(st, st + s))
    run = best = 0
    for a in range(lo, hi):
        run = 0 if a in used else run + 1
        best = max(best, run)
    if r is None:
        if best >= n:
            return f'alloc({n}) -> None although a free run of {best} exists (live={live}, partition=[{lo},{hi}))'
        return None
    if r < lo or r + n > hi:
        return f'alloc({n}) -> {r} outside [{lo},{hi})'
    if any(a in used for a in range(r, r + n)):
        return f'alloc({n}) -> {r} overlaps live {live}'
    live.append((r, n))
    live.sort()
    return None


# ------------------------------------------------------------------ main

def main(tier, seed):
    eng = _eng()
    chk = Check(PID, 'model_checking', tier, seed)
    from sc3.synth import server as _srv
    chk.functions = src_hash([eng.ContiguousBlockAllocator, eng.ContiguousBlock, eng.NodeIDAllocator,
                              _srv.Server._new_bus_allocators, _srv.Server._new_buffer_allocators,
                              _srv.Server._next_buffer_number, _srv.ServerOptions.first_private_bus])
    if tier == 'quick':
        sizes, N, cids, poss = (1, 2, 3, 4, 5), 5, (0, 1, 2), (0, 1)
    else:
        sizes, N, cids, poss = (1, 2, 3, 4, 5, 6, 7), 7, (0, 1, 2, 3), (0, 1, 2)
    chk.bounds = {'partition_sizes': list(sizes), 'alloc_n': f'1..min({N}, partition)', 'client_ids': list(cids),
                  'reserved_pos': list(poss), 'history_length': 'unbounded (reachable-state fixpoint per configuration)',
                  'node_ids': 'temp, init_temp symbolic over the whole 26-bit window; user 0..31',
                  'server_partitions': 'Server objects with audio_buses 8/12/13, in/out channels (2,2)/(0,2)/(1,1), '
                                       'max_logins 1..3 (every client id), control_buses 6/8, buffers 6/8, reserved 0/1 '
                                       'each: every single-index allocation until exhaustion',
                  'outside': 'reserve(); PowerOfTwo/LRU/Stack/Ring allocators (not installed by Server); option values '
                             'other than the listed ones; partitions larger than the listed sizes'}
    chk.assumptions = ['block allocator: finite domain, reachable states enumerated to a fixpoint through the decision '
                       'tree (no sampling); bi.choice and the free-list dict iteration order are adversarial choices',
                       'double free = free of an address that was freed earlier in the same history and is not '
                       'currently the start of a live block']
    jobs = [dict(size=sz, pos=p, cid=c, N=N) for sz in sizes for p in poss for c in cids if p < sz]
    jobs.sort(key=lambda j: -j['size'])
    nst = ntr = 0
    for r in run_jobs('vf.props.c16', 'job_reach', jobs, 'none'):
        chk.add('block_allocator_reach', r)
        nst += r.get('states', 0)
        ntr += r.get('transitions', 0)
    chk.states, chk.transitions = nst, ntr
    chk.require_notes('block_allocator_reach', ['alloc', 'free', 'double-free'])
    for r in run_jobs('vf.props.c16', 'job_objects', [dict()], 'nrt'):
        chk.add('object_histories', r)
    chk.require_notes('object_histories', ['objects'])
    for r in run_jobs('vf.props.c16', 'job_server', [dict()], 'nrt'):
        chk.add('server_partitions', r)
    chk.require_notes('server_partitions', ['server'])
    for r in run_jobs('vf.props.c16', 'job_nodeid', [dict(user=u) for u in range(32)], 'none'):
        chk.add('node_id_step', r)
    lem = lemma_distinct()
    chk.extra['lemmas'] = lem
    part = chk.parts.setdefault('node_id_lemmas', dict(jobs=1, paths=0, aborted=0, queries=0, solver_s=0.0,
                                                       obligations=0, discharged=0, nontrivial=0, notes={}, wall=0.0))
    for name, res in lem:
        part['obligations'] += 1
        part['queries'] += 1
        if res == 'unsat':
            part['discharged'] += 1
        else:
            chk.inconclusive.append(f'lemma "{name}" not proved: {res}')
    return chk.finish(coverage_extra={'lemmas': lem},
                      explanation='inductive step over canonical allocator states (finite, complete) + symbolic '
                                  'node-id step and window lemmas (z3)')
