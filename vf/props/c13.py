"""C13 -- patterns denote the sequences their definitions say, compositionally.

Pattern expressions (depth <= 2 quick / 3 thorough) are built from the real classes with symbolic reals as elements
and symbolic bounded ints as repeats / offsets / lengths / counts; the real stream is compared -- same length,
element-wise z3 equality on every path -- with an independent denotational interpreter of the documented meaning
of each class (vf/props/c13.py: den).  Immutability: two streams of one pattern, one consumed partially before the
other is created and finished afterwards, must both give the reference sequence and leave the pattern unchanged.
"""
import itertools
import operator
import z3
from .. import symx
from ..symx import explore, Violation, PathAbort, SymReal, SymInt, Inconclusive
from ..run import Check, run_jobs, src_hash

PID = 'C13'
CAP = 14


def P():
    from sc3.seq.patterns import listpatterns as lsp, filterpatterns as flp, valuepatterns as vlp, funcpatterns as fnp
    from sc3.seq import pattern as ptt
    from sc3.base import stream as stm, builtins as bi
    return dict(lsp=lsp, flp=flp, vlp=vlp, fnp=fnp, ptt=ptt, stm=stm, bi=bi)


FUNCS = {'double1': lambda x, *_: x * 2 + 1, 'neg': lambda x, *_: -x}
PREDS = {'pos': lambda x, *_: bool(x > 0), 'big': lambda x, *_: bool(x >= 1)}


# ------------------------------------------------------------------ expressions

class Env:
    """symbolic leaves of one path"""

    def __init__(self, ctx):
        self.ctx = ctx
        self.k = itertools.count()

    def val(self):
        return self.ctx.real(f'v{next(self.k)}', -8, 8)

    def cnt(self, lo, hi):
        return self.ctx.idx(f'n{next(self.k)}', lo, hi)


def build(node, m):
    """my AST -> real pattern object (or plain value)"""
    k = node[0]
    lsp, flp, vlp, fnp = m['lsp'], m['flp'], m['vlp'], m['fnp']
    B = lambda x: build(x, m)      # noqa
    if k == 'val':
        return node[1]
    if k == 'seq':
        return lsp.Pseq([B(x) for x in node[1]], node[2], node[3])
    if k == 'ser':
        return lsp.Pser([B(x) for x in node[1]], node[2], node[3])
    if k == 'n':
        return flp.Pn(B(node[1]), node[2])
    if k == 'len':
        return flp.Plen(B(node[1]), node[2])
    if k == 'drop':
        return flp.Pdrop(B(node[1]), node[2])
    if k == 'stutter':
        return flp.Pstutter(B(node[1]), node[2])
    if k == 'clump':
        return flp.Pclump(B(node[1]), node[2])
    if k == 'clump-pat':
        return flp.Pclump(B(node[1]), lsp.Pseq(list(node[2]), 1))
    if k == 'flatten':
        return flp.Pflatten(flp.Pclump(B(node[1]), node[2]), 1)
    if k == 'diff':
        return flp.Pdiff(B(node[1]))
    if k == 'const':
        return flp.Pconst(B(node[1]), node[2], node[3])
    if k == 'switch':
        return lsp.Pswitch([B(x) for x in node[1]], B(node[2]))
    if k == 'switch1':
        return lsp.Pswitch1([B(x) for x in node[1]], B(node[2]))
    if k == 'place':
        return lsp.Place([[B(y) for y in x] if isinstance(x, list) else B(x) for x in node[1]], node[2], node[3])
    if k == 'tuple':
        return lsp.Ptuple([B(x) for x in node[1]], node[2])
    if k == 'slide':
        return lsp.Pslide([B(x) for x in node[1]], node[2], node[3], node[4], node[5], node[6])
    if k == 'series':
        return vlp.Pseries(node[1], node[2], node[3])
    if k == 'geom':
        return vlp.Pgeom(node[1], node[2], node[3])
    if k == 'series-pat':
        return vlp.Pseries(node[1], B(node[2]), node[3])
    if k == 'geom-pat':
        return vlp.Pgeom(node[1], B(node[2]), node[3])
    if k == 'collect':
        return flp.Pcollect(FUNCS[node[1]], B(node[2]))
    if k == 'select':
        return flp.Pselect(PREDS[node[1]], B(node[2]))
    if k == 'reject':
        return flp.Preject(PREDS[node[1]], B(node[2]))
    if k == 'if':
        return fnp.Pif(B(node[1]), B(node[2]), B(node[3]))
    if k == 'wrap':
        return flp.Pwrap(B(node[1]), node[2], node[3])
    if k == 'unop':
        return {'neg': operator.neg, 'abs': operator.abs}[node[1]](B(node[2]))
    if k == 'binop':
        a, b = B(node[2]), B(node[3])
        return {'+': operator.add, '*': operator.mul, '-': operator.sub}[node[1]](a, b)
    if k == 'rbinop':       # plain number on the left
        return {'+': operator.add, '*': operator.mul, '-': operator.sub}[node[1]](node[2], B(node[3]))
    if k == 'narop':
        return B(node[2]).clip(B(node[3]), B(node[4]))
    raise KeyError(k)


INF = float('inf')


def den(node, bi):
    """independent meaning: a generator of values"""
    k = node[0]
    D = lambda x: den(x, bi)       # noqa

    def embed(x):
        if isinstance(x, tuple) and x and isinstance(x[0], str):
            yield from D(x)
        else:
            yield x

    def count(n):
        return itertools.count() if n == INF else range(int(n))
    if k == 'val':
        yield node[1]           # a plain value embedded in place yields itself once
    elif k == 'seq':
        items, rep, off = node[1], node[2], int(node[3])
        for _ in count(rep):
            for i in range(len(items)):
                yield from embed(items[(i + off) % len(items)])
    elif k == 'ser':
        items, rep, off = node[1], node[2], int(node[3])
        for i in count(rep):
            yield from embed(items[(i + off) % len(items)])
    elif k == 'n':
        for _ in count(node[2]):
            yield from embed(node[1])
    elif k == 'len':
        yield from itertools.islice(as_stream(node[1], bi), int(node[2]))
    elif k == 'drop':
        yield from itertools.islice(as_stream(node[1], bi), int(node[2]), None)
    elif k == 'stutter':
        for v in as_stream(node[1], bi):
            for _ in range(abs(int(node[2]))):
                yield v
    elif k == 'clump':
        n = int(node[2])
        cur = []
        for v in as_stream(node[1], bi):
            cur.append(v)
            if len(cur) == n:
                yield cur
                cur = []
        if cur:
            yield cur
    elif k == 'clump-pat':
        # clump sizes drawn from a finite pattern: one clump per size; a source that ends inside a clump gives the
        # partial clump; nothing follows the last size
        src = as_stream(node[1], bi)
        for n in node[2]:
            cur = []
            for _ in range(int(n)):
                try:
                    cur.append(next(src))
                except StopIteration:
                    if cur:
                        yield cur
                    return
            yield cur
    elif k == 'flatten':
        # clumping then flattening one level gives the source back (n >= 1)
        n = int(node[2])
        yield from as_stream(node[1], bi)
    elif k == 'diff':
        prev = None
        first = True
        for v in as_stream(node[1], bi):
            if not first:
                yield v - prev
            prev = v
            first = False
    elif k == 'const':
        total, tol = node[2], node[3]
        acc = 0
        done = False
        for v in as_stream(node[1], bi):
            nxt = acc + v
            # documented: values are passed on until their sum reaches `sum` (within tolerance), the last one clipped
            if bool(ceil_to(nxt, tol) >= total):
                yield total - acc
                done = True
                break
            acc = nxt
            yield v
        if not done:
            yield total - acc
    elif k in ('switch', 'switch1'):
        items = node[1]
        if k == 'switch':
            for w in as_stream(node[2], bi):
                yield from embed(items[int(w) % len(items)])
        else:
            streams = [as_stream(x, bi) for x in items]
            for w in as_stream(node[2], bi):
                try:
                    yield next(streams[int(w) % len(items)])
                except StopIteration:
                    return
    elif k == 'place':
        items, rep, off = node[1], node[2], int(node[3])
        items = items[off:] + items[:off]
        for j in count(rep):
            for it in items:
                if isinstance(it, list):
                    it = it[j % len(it)]
                yield from embed(it)
    elif k == 'tuple':
        for _ in count(node[2]):
            streams = [as_stream(x, bi) for x in node[1]]
            while True:
                try:
                    yield tuple(next(s) for s in streams)
                except (StopIteration, RuntimeError):
                    break
    elif k == 'slide':
        items, length, step, start, wrap, rep = node[1:]
        pos = int(start)
        for _ in count(rep):
            for j in range(int(length)):
                if wrap:
                    yield from embed(items[(pos + j) % len(items)])
                elif pos + j < len(items):
                    yield from embed(items[pos + j])
                else:
                    return
            pos += int(step)
    elif k == 'series':
        cur = node[1]
        for _ in count(node[3]):
            yield cur
            cur = cur + node[2]
    elif k == 'geom':
        cur = node[1]
        for _ in count(node[3]):
            yield cur
            cur = cur * node[2]
    elif k in ('series-pat', 'geom-pat'):
        # step / grow given as a pattern: one step is drawn per value; the series ends when the step stream ends
        cur = node[1]
        steps = as_stream(node[2], bi)
        for _ in count(node[3]):
            try:
                st = next(steps)
            except StopIteration:
                return
            yield cur
            cur = cur + st if k == 'series-pat' else cur * st
    elif k == 'collect':
        for v in as_stream(node[2], bi):
            yield FUNCS[node[1]](v)
    elif k == 'select':
        for v in as_stream(node[2], bi):
            if PREDS[node[1]](v):
                yield v
    elif k == 'reject':
        for v in as_stream(node[2], bi):
            if not PREDS[node[1]](v):
                yield v
    elif k == 'if':
        c, a, b = as_stream(node[1], bi), as_stream(node[2], bi), as_stream(node[3], bi)
        for t in c:
            try:
                yield next(a) if bool(t != 0) else next(b)      # truthiness of the condition value
            except StopIteration:
                return
    elif k == 'wrap':
        for v in as_stream(node[1], bi):
            yield ref_wrap(v, node[2], node[3])
    elif k == 'unop':
        for v in as_stream(node[2], bi):
            yield -v if node[1] == 'neg' else abs(v)
    elif k in ('binop', 'rbinop'):
        f = {'+': operator.add, '*': operator.mul, '-': operator.sub}[node[1]]
        if k == 'rbinop':
            for v in as_stream(node[3], bi):
                yield f(node[2], v)
        else:
            for x, y in zip(as_stream(node[2], bi), as_stream(node[3], bi)):     # ends with the shortest operand
                yield f(x, y)
    elif k == 'narop':
        for x, lo, hi in zip(as_stream(node[2], bi), as_stream(node[3], bi), as_stream(node[4], bi)):
            yield max_(min_(x, hi), lo)
    else:
        raise KeyError(k)


def as_stream(node, bi):
    """a node used as the *source stream* of a filter / operator: plain values repeat for ever"""
    if node[0] == 'val':
        return itertools.repeat(node[1])
    return den(node, bi)


def min_(a, b):
    return a if bool(a <= b) else b


def max_(a, b):
    return a if bool(a >= b) else b


def ceil_to(x, q):
    """smallest multiple of q that is >= x (documented roundup)"""
    if isinstance(x, SymReal):
        t = symx._real(x.e) / symx._real(symx._t(q))
        c = -z3.ToInt(-t)
        return SymReal(z3.ToReal(c) * symx._real(symx._t(q)))
    import math
    return math.ceil(x / q) * q


def ref_wrap(v, lo, hi):
    """documented: v folded into [lo, hi) by adding a multiple of hi - lo"""
    rng = hi - lo
    if isinstance(v, SymReal):
        t = (symx._real(v.e) - symx._real(symx._t(lo))) / symx._real(symx._t(rng))
        return SymReal(symx._real(v.e) - symx._real(symx._t(rng)) * z3.ToReal(z3.ToInt(t)))
    import math
    return v - rng * math.floor((v - lo) / rng)


# ------------------------------------------------------------------ program generation

def inner_nodes(env, depth, lo=0):
    """small sub-expressions with fresh symbolic leaves"""
    a, b, c = env.val(), env.val(), env.val()
    out = [('val', a), ('seq', [('val', b), ('val', c)], env.cnt(lo, 2), 0)]
    out.append(('series', env.val(), env.val(), env.cnt(lo, 3)))
    if depth >= 2:
        out.append(('ser', [('val', env.val()), ('seq', [('val', env.val()), ('val', env.val())], 1, 0)], env.cnt(lo, 3),
                    env.cnt(0, 2)))
    return out


TEMPLATES = ['seq', 'ser', 'n', 'len', 'drop', 'stutter', 'clump', 'flatten', 'diff', 'const', 'switch', 'switch1',
             'place', 'tuple', 'slide', 'series', 'geom', 'collect', 'select', 'reject', 'if', 'wrap', 'unop', 'binop',
             'rbinop', 'narop', 'seq-narop', 'seq-offset', 'n-inf', 'ser-inf', 'series-pat', 'geom-pat', 'clump-pat']


def make(template, env, ctx, depth):
    # sub-patterns repeated for ever must not be empty (an empty body repeated for ever never yields: by design)
    inn = inner_nodes(env, depth, 1 if template in ('n-inf', 'ser-inf', 'len', 'if', 'narop', 'seq-narop') else 0)
    pick = lambda: inn[ctx.choose('inner', len(inn))]      # noqa
    v = lambda: ('val', env.val())                           # noqa
    if template == 'seq':
        return ('seq', [pick(), v(), pick()], env.cnt(0, 2), env.cnt(0, 2))
    if template == 'seq-offset':
        return ('seq', [v(), v(), v(), v(), v()], env.cnt(0, 3), env.cnt(0, 5))
    if template == 'ser':
        return ('ser', [pick(), v(), v()], env.cnt(0, 5), env.cnt(0, 3))
    if template == 'ser-inf':
        return ('ser', [v(), pick()], INF, env.cnt(0, 2))
    if template == 'n':
        return ('n', pick(), env.cnt(0, 3))
    if template == 'n-inf':
        return ('n', pick(), INF)
    if template == 'len':
        return ('len', ('n', pick(), INF), env.cnt(0, 5))
    if template == 'drop':
        return ('drop', ('seq', [v(), pick(), v()], env.cnt(1, 2), 0), env.cnt(0, 4))
    if template == 'stutter':
        return ('stutter', ('seq', [v(), pick()], 1, 0), env.cnt(0, 3))
    if template == 'clump':
        return ('clump', ('seq', [v(), v(), pick()], env.cnt(1, 2), 0), env.cnt(1, 3))
    if template == 'clump-pat':
        return ('clump-pat', ('seq', [v(), v(), pick()], env.cnt(1, 2), 0), [env.cnt(1, 2), env.cnt(1, 3)])
    if template == 'flatten':
        return ('flatten', ('seq', [v(), v(), pick()], 1, 0), env.cnt(1, 3))
    if template == 'diff':
        return ('diff', ('seq', [v(), pick(), v()], env.cnt(0, 2), 0))
    if template == 'const':
        return ('const', ('seq', [v(), v(), v()], env.cnt(1, 2), 0), env.val(), 0.5)
    if template in ('switch', 'switch1'):
        return (template, [v(), pick(), v()], ('seq', [('val', env.cnt(0, 3)), ('val', env.cnt(0, 3)),
                                                       ('val', 1)], 1, 0))
    if template == 'place':
        return ('place', [v(), [v(), v()], [v(), v(), v()]], env.cnt(0, 3), env.cnt(0, 2))
    if template == 'tuple':
        return ('tuple', [pick(), ('seq', [v(), v()], 1, 0)], env.cnt(0, 2))
    if template == 'slide':
        return ('slide', [v(), v(), v(), v()], env.cnt(0, 3), env.cnt(0, 2), env.cnt(0, 3),
                bool(ctx.choose('wrap', 2)), env.cnt(0, 3))
    if template == 'series':
        return ('series', env.val(), env.val(), env.cnt(0, 4))
    if template == 'geom':
        return ('geom', env.val(), env.val(), env.cnt(0, 4))
    if template == 'series-pat':
        return ('series-pat', env.val(), pick(), env.cnt(0, 4))
    if template == 'geom-pat':
        return ('geom-pat', env.val(), pick(), env.cnt(0, 4))
    if template == 'collect':
        return ('collect', ['double1', 'neg'][ctx.choose('f', 2)], ('seq', [v(), pick()], env.cnt(0, 2), 0))
    if template in ('select', 'reject'):
        return (template, ['pos', 'big'][ctx.choose('p', 2)], ('seq', [v(), v(), pick()], 1, 0))
    if template == 'if':
        return ('if', ('seq', [v(), v(), v()], 1, 0), ('seq', [v(), v()], INF, 0), pick())
    if template == 'wrap':
        return ('wrap', ('seq', [v(), v()], 1, 0), 1.0, 3.0)
    if template == 'unop':
        return ('unop', ['neg', 'abs'][ctx.choose('u', 2)], pick())
    if template == 'binop':
        return ('binop', ['+', '*', '-'][ctx.choose('b', 3)], ('seq', [v(), v(), v()], 1, 0), pick())
    if template == 'rbinop':
        return ('rbinop', ['+', '*', '-'][ctx.choose('b', 3)], env.val(), pick())
    if template == 'narop':
        return ('narop', 'clip', ('seq', [v(), v(), v()], 1, 0), ('seq', [v(), v()], INF, 0), ('val', env.val()))
    if template == 'seq-narop':
        # an n-ary operator pattern embedded in another pattern, with pattern operands
        return ('seq', [('narop', 'clip', ('seq', [v(), v(), v()], 1, 0), ('seq', [v(), v()], INF, 0),
                         ('val', env.val())), v()], env.cnt(1, 2), 0)
    raise KeyError(template)


def render(node):
    if isinstance(node, tuple) and node and isinstance(node[0], str):
        return [node[0]] + [render(x) for x in node[1:]]
    if isinstance(node, list):
        return [render(x) for x in node]
    if isinstance(node, (SymReal, SymInt)):
        return str(node.e)
    return node


def same_value(ctx, got, want, what, data):
    if isinstance(want, (list, tuple)) or isinstance(got, (list, tuple)):
        if type(got) is not type(want) or len(got) != len(want):
            raise Violation(f'{what}: {got!r} vs {want!r}', None, data)
        for g, w in zip(got, want):
            same_value(ctx, g, w, what, data)
        return
    tg, tw = symx._t(got), symx._t(want)
    tg, tw = symx._coerce(tg, tw)
    ctx.prove(tg == tw, what, data)


def _kinds(node):
    out = set()
    if isinstance(node, (tuple, list)):
        if node and isinstance(node[0], str):
            out.add(node[0])
        for x in node:
            out |= _kinds(x)
    return out


def scenario(ctx, template, depth):
    m = P()
    bi = m['bi']
    env = Env(ctx)
    node = make(template, env, ctx, depth)
    rec = {'mode': 'nrt', 'template': template, 'depth': depth}

    def data(sub):
        return {'key': f'c13:{template}:{sub}', 'replay': dict(rec, sub=sub, expr=render(node))}
    with symx.shims():
        pat = build(node, m)
        if not isinstance(pat, m['ptt'].Pattern):
            raise PathAbort('not a pattern')
        before = {k: (list(v) if isinstance(v, list) else v) for k, v in vars(pat).items()}
        want = list(itertools.islice(den(node, bi), CAP))
        s1 = pat.__stream__()
        got1 = []
        try:
            for _ in range(2):
                got1.append(s1.next())
        except m['stm'].StopStream:
            pass
        s2 = pat.__stream__()
        got2 = []
        try:
            for _ in range(CAP):
                got2.append(s2.next())
        except m['stm'].StopStream:
            pass
        try:
            while len(got1) >= 2 and len(got1) < CAP:
                got1.append(s1.next())
        except m['stm'].StopStream:
            pass
        # a stream that has ended stays ended (Pif is a function stream: like Pfunc it has no "ended" state of its own,
        # its documented end is the first StopStream of an operand)
        if len(got2) < CAP and 'if' not in _kinds(node):
            for _ in range(2):
                try:
                    extra = s2.next()
                except m['stm'].StopStream:
                    continue
                raise Violation(f'the stream of {render(node)} ended after {len(got2)} values and yields {extra!r} when '
                                'asked again', None, data('after-end'))
        # embedded in place: what follows the pattern in a sequence receives the input value of its own step
        echo = None
        if len(want) < CAP - 1:
            s3 = m['lsp'].Pseq([pat, m['fnp'].Pfuncn(lambda inval: inval, 1)], 1).__stream__()
            try:
                for i in range(len(want) + 1):
                    echo = s3.next(1000 + i)
            except m['stm'].StopStream:
                echo = 'ended'
            if symx.is_sym(echo) or echo != 1000 + len(want):
                raise Violation(f'{render(node)} embedded in a sequence and followed by an element that reads its input '
                                f'value: that element received {echo!r}, the input value of its step is '
                                f'{1000 + len(want)}', None, data('inval'))
        after = {k: (list(v) if isinstance(v, list) else v) for k, v in vars(pat).items()}
    for name, got in (('second stream', got2), ('first stream (consumed around the second)', got1)):
        if len(got) != len(want):
            raise Violation(f'{name} of {render(node)} has {len(got)} values, the documented meaning {len(want)}', None,
                            data('length'))
        for i, (g, w) in enumerate(zip(got, want)):
            same_value(ctx, g, w, f'{name}: element {i}', data('value'))
    if set(before) != set(after) or any(before[k] is not after[k] and before[k] != after[k]
                                        for k in before if not symx.is_sym(before[k])):
        raise Violation('the pattern object was modified by streaming', None, data('mutated'))
    ctx.note(template)
    return {'expr': render(node), 'length': len(want)}


def seeded_scenario(ctx, which):
    """random patterns under Pseed: same seed -> same sequence, streams do not influence one another"""
    m = P()
    lsp, flp, vlp, stm = m['lsp'], m['flp'], m['vlp'], m['stm']
    rec = {'mode': 'nrt', 'template': 'seeded', 'which': which}
    seed = 1234 + which
    inner = [lambda: vlp.Pwhite(0.0, 1.0, 6), lambda: lsp.Prand([1, 2, 3, 4, 5], 6), lambda: lsp.Pxrand([1, 2, 3], 6),
             lambda: lsp.Pshuffle([1, 2, 3, 4], 2), lambda: vlp.Pbrown(0.0, 1.0, 0.125, 6)][which]
    pat = flp.Pseed(seed, inner())
    # Pseed restarts its pattern with the same seed for ever: read a fixed number of values
    try:
        a = pat.__stream__()
        first = [a.next(), a.next()]
        b = pat.__stream__()
        other = flp.Pseed(99, inner()).__stream__()
        bs = []
        for _ in range(9):
            bs.append(b.next())
            other.next()
        for _ in range(7):
            first.append(a.next())
    except (PathAbort, Inconclusive, Violation):
        raise
    except Exception as e:
        name = ['Pwhite', 'Prand', 'Pxrand', 'Pshuffle', 'Pbrown'][which]
        raise Violation(f'streaming Pseed({seed}, {name}(...)) raises {type(e).__name__}: {e}', None,
                        {'key': 'c13:seeded-raises', 'replay': rec})
    if first != bs or len(bs) == 0:
        raise Violation(f'two streams of one seeded pattern differ: {first} vs {bs}', None,
                        {'key': 'c13:seeded', 'replay': rec})
    ctx.obligations += 1
    ctx.discharged += 1
    ctx.note('seeded')
    return {'seeded': which, 'values': [float(x) if isinstance(x, float) else x for x in bs[:4]]}


def job(j):
    if j['template'] == 'seeded':
        h = lambda c: seeded_scenario(c, j['which'])             # noqa
    else:
        h = lambda c: scenario(c, j['template'], j['depth'])     # noqa
    st = explore(h, max_paths=60000, timeout_ms=20000, stop_on_violation=True)
    d = st.as_dict()
    for v in d['violations']:
        rec = v['data']['replay']
        rec['values'] = dict(v['model'])
        rec['what'] = v['what']
    return d


# ------------------------------------------------------------------ replay

class _CEnvCtx:
    def __init__(self, vals):
        self.vals = vals
        self.obligations = self.discharged = 0

    def real(self, name, *a, **k):
        v = self.vals.get(name)
        return float(v) if v is not None else 0.5

    def idx(self, name, lo, hi):
        v = self.vals.get(name)
        return int(v) if v is not None else lo

    def choose(self, name, n):
        return int(self.vals.get(name, 0) or 0)

    def note(self, s):
        pass

    def prove(self, cond, what='', data=None):
        ok = cond if isinstance(cond, bool) else z3.is_true(z3.simplify(cond))
        if not ok:
            raise Violation(what, None, data)


def replay(rec):
    vals = rec.get('values', {})
    ctx = _CEnvCtx(vals)
    try:
        if rec['template'] == 'seeded':
            seeded_scenario(ctx, rec['which'])
        else:
            _replay_scenario(ctx, rec['template'], rec['depth'])
    except Violation as v:
        return v.what + f' (expression {rec.get("expr")})'
    except PathAbort:
        return None
    return None


def _replay_scenario(ctx, template, depth):
    """same as scenario() with concrete leaves; values compared with a tolerance"""
    m = P()
    env = Env(ctx)
    node = make(template, env, ctx, depth)
    pat = build(node, m)
    want = list(itertools.islice(den(node, m['bi']), CAP))
    got = []
    s = pat.__stream__()
    try:
        for _ in range(CAP):
            got.append(s.next())
    except m['stm'].StopStream:
        pass

    def close(a, b):
        if isinstance(a, (list, tuple)) or isinstance(b, (list, tuple)):
            return type(a) is type(b) and len(a) == len(b) and all(close(x, y) for x, y in zip(a, b))
        return abs(a - b) <= 1e-9 * (1 + abs(a) + abs(b))
    if len(got) != len(want) or not all(close(g, w) for g, w in zip(got, want)):
        raise Violation(f'stream yields {got}, the documented meaning is {want}', None, None)
    s1 = pat.__stream__()
    a = []
    try:
        a = [s1.next(), s1.next()]
    except m['stm'].StopStream:
        pass
    s2 = pat.__stream__()
    b = []
    try:
        for _ in range(CAP):
            b.append(s2.next())
    except m['stm'].StopStream:
        pass
    if len(b) != len(want) or not all(close(g, w) for g, w in zip(b, want)):
        raise Violation(f'a second stream of the same pattern yields {b}, expected {want}', None, None)
    if len(b) < CAP and 'if' not in _kinds(node):
        for _ in range(2):
            try:
                extra = s2.next()
            except m['stm'].StopStream:
                continue
            raise Violation(f'the stream ended after {len(b)} values and yields {extra!r} when asked again', None, None)
    if len(want) < CAP - 1:
        s3 = m['lsp'].Pseq([pat, m['fnp'].Pfuncn(lambda inval: inval, 1)], 1).__stream__()
        echo = None
        try:
            for i in range(len(want) + 1):
                echo = s3.next(1000 + i)
        except m['stm'].StopStream:
            echo = 'ended'
        if echo != 1000 + len(want):
            raise Violation(f'embedded in a sequence and followed by an element that reads its input value: that element '
                            f'received {echo!r}, the input value of its step is {1000 + len(want)}', None, None)


# ------------------------------------------------------------------ main

def main(tier, seed):
    m = P()
    chk = Check(PID, 'translation_validation', tier, seed)
    lsp, flp, vlp, fnp, ptt, stm = m['lsp'], m['flp'], m['vlp'], m['fnp'], m['ptt'], m['stm']
    chk.functions = src_hash([lsp.Pseq, lsp.Pser, lsp.Pswitch, lsp.Pswitch1, lsp.Place, lsp.Ptuple, lsp.Pslide, flp.Pn,
                              flp.Plen, flp.Pdrop, flp.Pstutter, flp.Pclump, flp.Pflatten, flp.Pdiff, flp.Pconst,
                              flp.Pcollect, flp.Pselect, flp.Preject, flp.Pwrap, flp.Pseed, vlp.Pseries, vlp.Pgeom,
                              fnp.Pif, ptt.Punop, ptt.Pbinop, ptt.Pnarop, stm.embed, stm.stream])
    depth = 1 if tier == 'quick' else 2
    jobs = [dict(template=t, depth=depth) for t in TEMPLATES]
    jobs += [dict(template='seeded', which=w) for w in range(5)]
    for r in run_jobs('vf.props.c13', 'job', jobs, 'nrt'):
        chk.add('patterns', r)
    chk.require_notes('patterns', TEMPLATES + ['seeded'])
    chk.programs = sum(a.get('paths', 0) for a in chk.parts.values())
    chk.bounds = {'templates': TEMPLATES, 'inner_expressions': 'value, Pseq of 2, Pseries' +
                  (', Pser over a nested Pseq' if depth >= 2 else ''), 'counts': 'repeats/offset/n/length symbolic in '
                  '0..3 (some 0..5); infinite repeats observed through a truncation', 'output_cap': CAP,
                  'outside': 'event patterns (C14); random patterns beyond same-seed determinism; Pconst tolerance '
                             'other than 0.5; list elements beyond 5'}
    chk.assumptions = ['element values are exact reals in [-8, 8]', 'the reference meaning of each class is the '
                       'interpreter den() in vf/props/c13.py, written from the documentation']
    return chk.finish(explanation='real stream vs denotational interpreter: equal length and z3-equal elements')
