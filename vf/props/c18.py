"""C18 -- incoming messages reach exactly the responders that should fire.

(a) address matching: the regex the REAL matcher hands to `re` (rewrite table executed, entry point observed by a
    recording proxy of the `re` module) is converted to a z3 regular expression and compared, for unbounded
    printable-ASCII keys, with the OSC 1.0 meaning of the same pattern skeleton built directly in z3:
    exists key: (key in L_impl) xor (key in L_spec)?  sat = counterexample, replayed on the real matcher.
(b) dispatch histories: create / enable / disable / one_shot / free / replace func / CmdPeriod / incoming message, all
    sequences up to the bound, message arguments symbolic ints (argument templates fork in the solver); oracle =
    reference dispatcher.
(c) hostile bundles: one iteration of the real OscBundle._parse_contents loop from an arbitrary position with an
    arbitrary int32 element size (z3): the position strictly increases or the loop leaves (ranking function);
    a model is turned into real bytes and replayed under a watchdog.
(d) action registries (SystemAction subclasses, NotificationCenter): bounded add/remove/run histories vs an ordered
    list.
"""
import itertools
import re
import struct
import z3
from .. import symx
from ..symx import explore, Violation, PathAbort, SymReal, SymInt, Inconclusive
from ..run import Check, run_jobs, src_hash

PID = 'C18'
try:
    import re._parser as sre_parse
except ImportError:      # pragma: no cover
    import sre_parse

# ------------------------------------------------------------------ (a) matching

TOKENS = ['a', 'b', '/', '.', '+', '?', '*', '[ab]', '[a-c]', '[!a]', '{ab,c}', '{a,}']
RS = z3.ReSort(z3.StringSort())
PRINTABLE = z3.Range(' ', '~')


ALPHA = set(range(32, 127))          # keys are printable ASCII: every character class is a subset of it


def cset(codes):
    """set of code points -> z3 regex (union of ranges); no complement / intersection operators"""
    codes = sorted(c for c in codes if c in ALPHA)
    if not codes:
        return z3.Empty(RS)
    runs = []
    lo = prev = codes[0]
    for c in codes[1:]:
        if c != prev + 1:
            runs.append((lo, prev))
            lo = c
        prev = c
    runs.append((lo, prev))
    parts = [z3.Re(chr(a)) if a == b else z3.Range(chr(a), chr(b)) for a, b in runs]
    return parts[0] if len(parts) == 1 else z3.Union(*parts)


def conv(node):
    """sre parse tree of the implementation's regex -> z3 regex over printable ASCII"""
    parts = []
    for op, av in node:
        op = str(op)
        if op == 'LITERAL':
            parts.append(cset({av}))
        elif op == 'NOT_LITERAL':
            parts.append(cset(ALPHA - {av}))
        elif op == 'ANY':
            parts.append(cset(ALPHA - {10}))
        elif op in ('MAX_REPEAT', 'MIN_REPEAT'):
            lo, hi, sub = av
            r = conv(sub)
            if lo == 0 and str(hi) == 'MAXREPEAT':
                parts.append(z3.Star(r))
            elif lo == 1 and str(hi) == 'MAXREPEAT':
                parts.append(z3.Plus(r))
            elif lo == 0 and hi == 1:
                parts.append(z3.Option(r))
            else:
                raise Inconclusive(f'repeat {lo},{hi}')
        elif op == 'IN':
            neg = False
            codes = set()
            for o2, a2 in av:
                o2 = str(o2)
                if o2 == 'NEGATE':
                    neg = True
                elif o2 == 'LITERAL':
                    codes.add(a2)
                elif o2 == 'RANGE':
                    codes.update(range(a2[0], a2[1] + 1))
                else:
                    raise Inconclusive(f'class item {o2}')
            parts.append(cset(ALPHA - codes if neg else codes))
        elif op == 'SUBPATTERN':
            parts.append(conv(av[3]))
        elif op == 'BRANCH':
            alts = [conv(x) for x in av[1]]
            parts.append(z3.Union(*alts) if len(alts) > 1 else alts[0])
        else:
            raise Inconclusive(f'regex node {op}')
    if not parts:
        return z3.Re('')
    return z3.Concat(*parts) if len(parts) > 1 else parts[0]


def spec_regex(tokens):
    """OSC 1.0 meaning (the weaker reading: ? and * may cross '/'), whole key consumed"""
    parts = []
    for t in tokens:
        if t == '?':
            parts.append(cset(ALPHA))
        elif t == '*':
            parts.append(z3.Star(cset(ALPHA)))
        elif t.startswith('[!'):
            parts.append(cset(ALPHA - _cls(t[2:-1])))
        elif t.startswith('['):
            parts.append(cset(_cls(t[1:-1])))
        elif t.startswith('{'):
            alts = t[1:-1].split(',')
            parts.append(z3.Union(*[z3.Re(a) for a in alts]) if len(alts) > 1 else z3.Re(alts[0]))
        else:
            parts.append(z3.Re(t))
    if not parts:
        return z3.Re('')
    return z3.Concat(*parts) if len(parts) > 1 else parts[0]


def _cls(body):
    codes = set()
    i = 0
    while i < len(body):
        if i + 2 < len(body) and body[i + 1] == '-':
            codes.update(range(ord(body[i]), ord(body[i + 2]) + 1))
            i += 3
        else:
            codes.add(ord(body[i]))
            i += 1
    return codes


class ReRecorder:
    """stands in for the `re` module inside sc3.base._oscmatch: records which entry point gets which regex"""

    def __init__(self):
        self.calls = []

    def __getattr__(self, n):
        return getattr(re, n)

    def match(self, pattern, string, flags=0):
        self.calls.append(('match', pattern if isinstance(pattern, str) else pattern.pattern))
        return re.match(pattern, string, flags)

    def fullmatch(self, pattern, string, flags=0):
        self.calls.append(('fullmatch', pattern if isinstance(pattern, str) else pattern.pattern))
        return re.fullmatch(pattern, string, flags)

    def search(self, pattern, string, flags=0):
        self.calls.append(('search', pattern if isinstance(pattern, str) else pattern.pattern))
        return re.search(pattern, string, flags)


def ref_match(tokens, key):
    """independent reference matcher (backtracking over the token list)"""
    def m(ti, ki):
        if ti == len(tokens):
            return ki == len(key)
        t = tokens[ti]
        if t == '*':
            return any(m(ti + 1, k2) for k2 in range(ki, len(key) + 1))
        if t.startswith('{'):
            return any(key.startswith(a, ki) and m(ti + 1, ki + len(a)) for a in t[1:-1].split(','))
        if ki >= len(key):
            return False
        c = key[ki]
        if t == '?':
            ok = True
        elif t.startswith('['):
            neg = t.startswith('[!')
            body = t[2:-1] if neg else t[1:-1]
            inside = False
            i = 0
            while i < len(body):
                if i + 2 < len(body) and body[i + 1] == '-':
                    inside = inside or body[i] <= c <= body[i + 2]
                    i += 3
                else:
                    inside = inside or c == body[i]
                    i += 1
            ok = inside != neg
        else:
            ok = c == t
        return ok and m(ti + 1, ki + 1)
    return m(0, 0)


def job_match(j):
    """one job = a batch of token skeletons; pure z3 (no path exploration)"""
    from sc3.base import responders as rpd, _oscmatch as om
    import time
    out = dict(paths=0, aborted=0, queries=0, solver_s=0.0, obligations=0, discharged=0, nontrivial=0, notes={},
               violations=[], inconclusive=[], samples=[], wall=0.0, truncated=False)
    t0 = time.time()
    key = z3.String('key')
    for tokens in j['skeletons']:
        pattern = ''.join(tokens)
        rec = ReRecorder()
        saved = om.re
        om.re = rec
        try:
            rpd._match_osc_address_pattern(pattern, 'probe')
        except re.error as e:
            out['inconclusive'].append(f'pattern {pattern!r}: the implementation\'s regex does not compile: {e}')
            continue
        finally:
            om.re = saved
        if len(rec.calls) != 1:
            out['inconclusive'].append(f'pattern {pattern!r}: {len(rec.calls)} regex calls')
            continue
        entry, py = rec.calls[0]
        try:
            rimpl = conv(sre_parse.parse(py))
        except Inconclusive as e:
            out['inconclusive'].append(f'pattern {pattern!r}: regex {py!r} not convertible: {e}')
            continue
        allp = z3.Star(cset(ALPHA))
        limpl = {'match': z3.Concat(rimpl, allp), 'fullmatch': rimpl, 'search': z3.Concat(allp, rimpl, allp)}[entry]
        lspec = spec_regex(tokens)
        s = z3.Solver()
        s.set('timeout', 30000)
        s.add(z3.InRe(key, z3.Star(cset(ALPHA))))
        s.add(z3.Xor(z3.InRe(key, limpl), z3.InRe(key, lspec)))
        t1 = time.time()
        r = s.check()
        out['solver_s'] += time.time() - t1
        out['queries'] += 1
        out['obligations'] += 1
        out['paths'] += 1
        if r == z3.unsat:
            out['discharged'] += 1
            out['nontrivial'] += 1
            if len(out['samples']) < 2:
                out['samples'].append({'pattern': pattern, 'implementation_regex': py, 'entry': entry,
                                       'verdict': 'languages equal over printable ASCII keys of any length'})
        elif r == z3.sat:
            w = s.model()[key].as_string()
            out['violations'].append({'what': f'pattern {pattern!r}: key {w!r} is '
                                      f'{"matched" if rpd._match_osc_address_pattern(pattern, w) else "not matched"} '
                                      f'by the implementation (regex {py!r} via re.{entry}) but the OSC 1.0 meaning says '
                                      f'{"match" if ref_match(tokens, w) else "no match"}',
                                      'model': {'key': w}, 'decisions': [],
                                      'data': {'key': 'c18:match:' + ('prefix' if entry == 'match' and
                                                                      ref_match(tokens, w) is False else 'language'),
                                               'replay': {'mode': 'rt', 'kind': 'match', 'tokens': tokens,
                                                          'key_string': w}}})
            if len(out['violations']) >= 3:
                break
        else:
            out['inconclusive'].append(f'pattern {pattern!r}: z3 unknown')
    out['wall'] = time.time() - t0
    out['notes'] = {'match': out['paths']}
    return out


# ------------------------------------------------------------------ (b) dispatch histories

OPS = ['new_exact', 'new_match', 'disable', 'enable', 'one_shot', 'free', 'replace', 'cmd_period', 'msg']


def dispatch_scenario(ctx, nops, first, max_resp=2, rich=True):
    from sc3.base import responders as rpd, netaddr as nad, systemactions as sac, main as _m
    main = _m.main
    rec = {'mode': 'rt', 'kind': 'dispatch', 'nops': nops, 'first': first, 'max_resp': max_resp, 'rich': rich}
    ops_done = []

    def data(sub):
        return {'key': f'c18:dispatch:{sub}', 'replay': dict(rec, sub=sub, ops=list(ops_done))}
    fired = []
    resp = []        # dicts: obj, path, matching, src, port, tmpl, fn_id, enabled, oneshot, freed, order
    order = itertools.count()
    sender_a = nad.NetAddr('127.0.0.1', 9001)
    sender_b = nad.NetAddr('127.0.0.1', 9002)
    my_port = main._osc_interface.port
    # start from a clean slate
    for r in list(rpd.OscFunc._all_func_proxies):
        r.free()
    try:
        for i in range(nops):
            oi = first[i] if i < len(first) else ctx.choose(f'op{i}', len(OPS))
            op = OPS[oi]
            if op in ('new_exact', 'new_match'):
                if len(resp) >= max_resp:
                    raise PathAbort('responder bound')
                variant = ctx.choose(f'variant{i}', 4) if rich else [0, 2][ctx.choose(f'variant{i}', 2)]   # 0 plain, 1 src filter, 2 arg template, 3 other path
                path = '/y' if variant == 3 else '/x'
                idx = len(resp)

                def mk(k):
                    def f(msg, time, addr, port):
                        fired.append((k, 0, list(msg), time, addr, port))
                    return f
                kw = {}
                if variant == 1:
                    kw['src_id'] = sender_a
                if variant == 2:
                    # a literal template; a falsy literal (0) is a literal like any other, only None is the wildcard
                    kw['arg_template'] = [0] if idx % 2 == 0 else [7]
                ctor = rpd.OscFunc if op == 'new_exact' else rpd.OscFunc.matching
                obj = ctor(mk(idx), path, **kw)
                resp.append(dict(obj=obj, path=path, matching=(op == 'new_match'), src=kw.get('src_id'),
                                 tmpl=kw.get('arg_template'), gen=0, enabled=True, oneshot=False, freed=False,
                                 order=next(order)))
                ops_done.append([op, variant])
            elif op == 'msg':
                variant = ctx.choose(f'mvariant{i}', 4) if rich else [0, 2][ctx.choose(f'mvariant{i}', 2)]     # 0 '/x' from a, 1 '/x' from b, 2 '/?' pattern, 3 '/y'
                maddr = ['/x', '/x', '/?', '/y'][variant]
                snd = sender_b if variant == 1 else sender_a
                arg = ctx.int(f'arg{i}', -10, 10)
                ops_done.append([op, variant, f'arg{i}'])
                fired.clear()
                tstamp = 12.5 + i
                msg = [maddr, arg, 'tail']
                for f in list(type(main._osc_interface)._recv_functions):
                    f(list(msg), tstamp, snd, my_port)
                # ---- reference dispatcher
                expect = []
                for k, r in enumerate(resp):
                    if not r['enabled'] or r['freed']:
                        continue
                    if r['matching']:
                        hit = (maddr == r['path']) or (maddr == '/?' and len(r['path']) == 2)
                    else:
                        hit = maddr == r['path']
                    if not hit:
                        continue
                    if r['src'] is not None and snd is not r['src']:
                        continue
                    if r['tmpl'] is not None:
                        if not (arg == r['tmpl'][0]):       # forks in the solver for a symbolic argument
                            continue
                    expect.append(k)
                got = [f[0] for f in fired]
                if sorted(got) != sorted(expect):
                    raise Violation(f'message {maddr} from port {snd.port}: responders fired {got}, expected {expect} '
                                    f'(history {ops_done})', None, data('set'))
                # order among responders of the same kind and path = registration order
                for (k1, k2) in zip(got, got[1:]):
                    r1, r2 = resp[k1], resp[k2]
                    if r1['matching'] == r2['matching'] and r1['path'] == r2['path'] and r1['order'] > r2['order']:
                        raise Violation(f'responders on {r1["path"]} fired out of registration order: {got}', None,
                                        data('order'))
                for f in fired:
                    k, gen, m_, t_, a_, p_ = f
                    if gen != resp[k]['gen']:
                        raise Violation(f'responder {k} ran a function that had been replaced', None, data('stale-func'))
                    if m_[0] != maddr or t_ != tstamp or a_ is not snd or p_ != my_port or m_[2] != 'tail':
                        raise Violation('responder received wrong message / time / sender / port', None, data('args'))
                    ctx.prove(symx._t(m_[1]) == symx._t(arg), 'responder received a different argument', data('args'))
                for k in expect:
                    if resp[k]['oneshot']:
                        resp[k]['enabled'] = False
                        resp[k]['freed'] = True
                ctx.obligations += 1
                ctx.discharged += 1
            elif op == 'cmd_period':
                sac.CmdPeriod.run()
                for r in resp:
                    if r['enabled'] or not r['freed']:
                        r['enabled'] = False
                        r['freed'] = True
                ops_done.append([op])
            else:
                if not resp:
                    raise PathAbort('no responder yet')
                k = ctx.choose(f'target{i}', len(resp))
                r = resp[k]
                ops_done.append([op, k])
                # prune operations that are no-ops in this state (they are covered by shorter histories)
                if (op == 'disable' and not r['enabled']) or (op == 'enable' and r['enabled']) or \
                        (op == 'free' and r['freed']) or (op == 'one_shot' and r['oneshot']):
                    raise PathAbort('no-op')
                if op == 'disable':
                    r['obj'].disable()
                    r['enabled'] = False
                elif op == 'enable':
                    r['obj'].enable()
                    if not r['enabled']:
                        r['order'] = next(order)
                    r['enabled'] = True
                    r['freed'] = False
                elif op == 'one_shot':
                    r['obj'].one_shot()
                    r['oneshot'] = True
                elif op == 'free':
                    r['obj'].free()
                    r['enabled'] = False
                    r['freed'] = True
                elif op == 'replace':
                    r['gen'] += 1
                    g = r['gen']

                    def mk2(kk, gg):
                        def f(msg, time, addr, port):
                            fired.append((kk, gg, list(msg), time, addr, port))
                        return f
                    r['obj'].func = mk2(k, g)
                    r['oneshot'] = False
        ctx.note('dispatch')
        return {'ops': list(ops_done)}
    finally:
        for r in resp:
            try:
                r['obj'].free()
            except Exception:
                pass


def filters_scenario(ctx):
    """source / receive-port filters: a responder fires iff EVERY filter it was given matches the message"""
    from sc3.base import responders as rpd, netaddr as nad, main as _m
    main = _m.main
    my_port = main._osc_interface.port
    fk = ctx.choose('filter', 6)           # 0 none, 1 src (host+port), 2 recv_port, 3 both, 4 src without port,
    #                                        5 src without port + recv_port
    sk = ctx.choose('sender', 3)           # 0 (h1, p1), 1 (h2, p1) same port other host, 2 (h1, p2) other port
    rk = ctx.choose('recvport', 2)         # 0 the library's port, 1 another one
    matching = bool(ctx.choose('matching', 2))
    rec = {'mode': 'rt', 'kind': 'filters', 'sel': dict(filter=fk, sender=sk, recvport=rk, matching=int(matching))}
    src = nad.NetAddr('127.0.0.1', 9001)
    src_np = nad.NetAddr('127.0.0.1', None)
    snd = [nad.NetAddr('127.0.0.1', 9001), nad.NetAddr('127.0.0.2', 9001), nad.NetAddr('127.0.0.1', 9002)][sk]
    rport = my_port if rk == 0 else my_port + 1
    for r in list(rpd.OscFunc._all_func_proxies):
        r.free()
    fired = []
    kw = {}
    if fk in (1, 3):
        kw['src_id'] = src
    if fk in (4, 5):
        kw['src_id'] = src_np
    if fk in (2, 3, 5):
        kw['recv_port'] = my_port
    ctor = rpd.OscFunc.matching if matching else rpd.OscFunc
    obj = ctor(lambda msg, time, addr, port: fired.append((list(msg), addr, port)), '/x', **kw)
    try:
        for f in list(type(main._osc_interface)._recv_functions):
            f(['/x', 1], 3.5, snd, rport)
    finally:
        obj.free()
    want = True
    if fk in (1, 3) and sk != 0:
        want = False
    if fk in (4, 5) and sk == 1:
        want = False          # host differs; a source without port accepts any port of that host
    if fk in (2, 3, 5) and rk != 0:
        want = False
    if bool(fired) != want or len(fired) > 1:
        raise Violation(f'responder with filters {sorted(kw)} (src {kw.get("src_id")}, recv_port {kw.get("recv_port")}) '
                        f'and a message from {snd} received on port {rport}: fired {len(fired)} time(s), expected '
                        f'{int(want)}', None, {'key': 'c18:filters', 'replay': rec})
    ctx.obligations += 1
    ctx.discharged += 1
    ctx.note('filters')
    return {'sel': rec['sel']}


RECV_KINDS = ['empty-foreign', 'garbage', 'valid', 'truncated-bundle', 'bad-utf8', 'bad-utf8-address']


def recvloop_scenario(ctx):
    """the real UDP receive loop on a scripted socket: whatever arrives before (empty datagrams, garbage, from any
    sender), every later valid message is still dispatched; the loop ends only at the interface's own stop sentinel"""
    from sc3.base import responders as rpd, main as _m, _osclib as oli
    main = _m.main
    live = main._osc_interface
    bind_addr = ('127.0.0.1', live.port)
    foreign = ('127.0.0.1', 9001)
    valid = oli.OscMessageBuilder('/x')
    valid.add_arg(7)
    valid = valid.build().dgram
    kinds = RECV_KINDS
    n = 1 + ctx.choose('n', 3)
    script = [kinds[ctx.choose(f'd{i}', len(kinds))] for i in range(n)]
    rec = {'mode': 'rt', 'kind': 'recvloop', 'script': script}
    payload = {'empty-foreign': b'', 'garbage': b'\xff\xfe\x00abc', 'valid': valid,
               'truncated-bundle': b'#bundle\x00' + b'\x00' * 6,
               # bytes that are not utf-8 where a string is expected (not the decoder's own error type)
               'bad-utf8': b'/\x00\x00\x80\x00\x00\x00\x00', 'bad-utf8-address': b'/\xff\xfe\x00,\x00\x00\x00'}
    items = [(payload[k], foreign) for k in script] + [(valid, foreign), (b'', bind_addr)]

    class FakeSocket:
        def __init__(self):
            self.i = 0

        def getsockname(self):
            return bind_addr

        def recvfrom(self, n_):
            if self.i >= len(items):
                raise OSError('script exhausted')
            it = items[self.i]
            self.i += 1
            return it
    for r in list(rpd.OscFunc._all_func_proxies):
        r.free()
    fired = []
    seen2 = []

    def greedy(store):
        # a callback that consumes the list it was given: what other receivers get must not depend on it
        def f(msg, time, addr, port):
            store.append(list(msg))
            del msg[:]
        return f
    obj = rpd.OscFunc(greedy(fired), '/x')
    obj2 = rpd.OscFunc.matching(greedy(seen2), '/x')
    clone = object.__new__(type(live))
    clone.__dict__.update(live.__dict__)
    sock = FakeSocket()
    clone._socket = sock
    import time
    want = script.count('valid') + 1
    try:
        try:
            clone._udp_run()
        except (PathAbort, Inconclusive, Violation):
            raise
        except BaseException as e:      # noqa
            raise Violation(f'the receive loop let {type(e).__name__}: {e} escape after datagrams {script}', None,
                            {'key': 'c18:recvloop:raises', 'replay': rec})
        # responders are called through SystemClock.sched in RT: dispatch is asynchronous; wait briefly
        t0 = time.time()
        while (len(fired) < want or len(seen2) < want) and time.time() - t0 < 1.0:
            time.sleep(0.005)
    finally:
        obj.free()
        obj2.free()
    for store, nm in ((fired, 'exact'), (seen2, 'matching')):
        bad = [m_ for m_ in store if m_ != ['/x', 7]]
        if bad or len(store) != want:
            raise Violation(f'the {nm} responder received {store} for {want} message(s) [\'/x\', 7] (script {script}): '
                            f'a receiver that consumed its copy changed what the others got', None,
                            {'key': 'c18:recvloop:shared-message', 'replay': rec})
    if sock.i != len(items):
        raise Violation(f'the receive loop stopped after {sock.i} of {len(items)} datagrams (script {script}): a datagram '
                        f'other than its own stop sentinel ended it, later messages are never processed', None,
                        {'key': 'c18:recvloop:stopped', 'replay': rec})
    if len(fired) != want:
        raise Violation(f'{len(fired)} of {want} valid messages were dispatched (script {script})', None,
                        {'key': 'c18:recvloop:lost', 'replay': rec})
    ctx.obligations += 1
    ctx.discharged += 1
    ctx.note('recvloop')
    return {'script': script}


NESTED_LAYOUTS = [
    ('b', 0, [('m', 0), ('b', 1, [('m', 1)]), ('m', 2)]),
    ('b', 0, [('b', 1, [('m', 1)]), ('m', 0)]),
    ('b', 0, [('m', 0), ('m', 2), ('b', 1, [('m', 1)])]),
    ('b', 0, [('b', 1, [('m', 1), ('b', 2, [('m', 3)]), ('m', 4)]), ('m', 0)]),
    ('b', 0, [('m', 0), ('b', 1, [('m', 1)]), ('b', 2, [('m', 3)]), ('m', 2)]),
]


def nested_scenario(ctx):
    """a bundle with nested bundles at any position: every message is dispatched once, with the time of ITS OWN
    enclosing bundle, in non-decreasing time"""
    import struct
    from sc3.base import main as _m, clock as clk
    main = _m.main
    live = main._osc_interface
    li = ctx.choose('layout', len(NESTED_LAYOUTS))
    order = ctx.choose('times', 3)          # which of the three timetags is the earliest / latest
    rec = {'mode': 'rt', 'kind': 'nested', 'sel': {'layout': li, 'times': order}}
    now = main.elapsed_time()
    secs = [[now + 10, now + 60, now + 30], [now + 60, now + 10, now + 30], [now + 30, now + 60, now + 10]][order]
    tts = [clk.SystemClock.elapsed_time_to_osc(x) for x in secs]

    def enc(node, expect):
        if node[0] == 'm':
            return b'/x\x00\x00,i\x00\x00' + struct.pack('>i', node[1])
        out = b'#bundle\x00' + struct.pack('>Q', tts[node[1]])
        for el in node[2]:
            if el[0] == 'm':
                expect[el[1]] = tts[node[1]]
            e = enc(el, expect)
            out += struct.pack('>i', len(e)) + e
        return out
    expect = {}
    dg = enc(NESTED_LAYOUTS[li], expect)
    got = []
    clone = object.__new__(type(live))
    clone.__dict__.update(live.__dict__)
    clone._msg_dispatch = lambda address, time, *msg: got.append((list(msg), time))
    clone._handle_request(dg, ('127.0.0.1', 9001))

    def bad(what):
        raise Violation(f'bundle layout {NESTED_LAYOUTS[li]} (times of bundles 0, 1, 2: +{secs[0] - now:.0f}, '
                        f'+{secs[1] - now:.0f}, +{secs[2] - now:.0f} s): {what}', None, {'key': 'c18:nested', 'replay': rec})
    ids = sorted(m_[1] for m_, _ in got if len(m_) == 2 and m_[0] == '/x')
    if ids != sorted(expect):
        bad(f'messages dispatched {[m_ for m_, _ in got]}, contained {sorted(expect)}')
    for m_, t in got:
        want = clk.SystemClock.osc_to_elapsed_time(expect[m_[1]])
        if abs(t - want) > 1e-6:
            bad(f'message {m_[1]} dispatched with time now{t - now:+.3f} s, its enclosing bundle says now{want - now:+.3f} s')
    if any(b[1] < a[1] - 1e-9 for a, b in zip(got, got[1:])):
        bad(f'dispatch order {[m_[1] for m_, _ in got]} is not in non-decreasing time')
    ctx.obligations += 1
    ctx.discharged += 1
    ctx.note('nested')
    return {'layout': li}


def job_nested(j):
    st = explore(nested_scenario, max_paths=1000, timeout_ms=5000, stop_on_violation=True)
    d = st.as_dict()
    for v in d['violations']:
        v['data']['replay']['what'] = v['what']
    return d


def job_recvloop(j):
    st = explore(recvloop_scenario, max_paths=5000, timeout_ms=5000, stop_on_violation=True)
    d = st.as_dict()
    for v in d['violations']:
        v['data']['replay']['what'] = v['what']
    return d


def job_filters(j):
    st = explore(filters_scenario, max_paths=5000, timeout_ms=5000, stop_on_violation=True)
    d = st.as_dict()
    for v in d['violations']:
        v['data']['replay']['what'] = v['what']
    return d


def job_dispatch(j):
    st = explore(lambda c: dispatch_scenario(c, j['nops'], j['first'], j.get('max_resp', 2), j.get('rich', True)), max_paths=400000, timeout_ms=10000,
                 stop_on_violation=True)
    d = st.as_dict()
    for v in d['violations']:
        rec = v['data']['replay']
        rec['values'] = dict(v['model'])
        rec['what'] = v['what']
    return d


# ------------------------------------------------------------------ (c) hostile bundle elements

class StopSim(BaseException):
    pass


class SymBuf:
    """length-only abstraction of a datagram with exact Python slice semantics; content queries are choices"""

    def __init__(self, ctx, length, root=None):
        self.ctx = ctx
        self.len = length
        self.root = root or self
        if root is None:
            self.whiles = []

    def __getitem__(self, sl):
        if not isinstance(sl, slice):
            raise Inconclusive('SymBuf index')
        n = self.len
        start = sl.start if sl.start is not None else 0
        stop = sl.stop if sl.stop is not None else n

        def clamp(x):
            x = symx._t(x)
            nn = symx._t(n)
            x = z3.If(x < 0, z3.If(x + nn < 0, z3.IntVal(0), x + nn), z3.If(x > nn, nn, x))
            return x
        a, b = clamp(start), clamp(stop)
        ln = z3.If(b > a, b - a, z3.IntVal(0))
        child = SymBuf(self.ctx, SymInt(ln), self.root)
        if sl.stop is None:
            # `while self._dgram[index:]` -- the loop head: remember the position
            self.root.whiles.append(start)
            if len(self.root.whiles) >= 2:
                raise StopSim()
        return child

    def __bool__(self):
        return bool(self.len > 0)

    def startswith(self, prefix):
        return bool(self.ctx.choose('startswith', 2))


def bundle_step(ctx):
    from sc3.base import _osclib as oli
    L = ctx.int('len', 16, 70000)
    index0 = ctx.int('index', 16, 70000)
    ctx.assume(index0.e < L.e)
    size = ctx.int('element_size', -2 ** 31, 2 ** 31 - 1)
    buf = SymBuf(ctx, L)
    rec = {'mode': 'rt', 'kind': 'bundle', 'names': ['len', 'index', 'element_size']}

    def data(sub):
        return {'key': f'c18:bundle:{sub}', 'replay': dict(rec, sub=sub)}
    saved = (oli.get_int, oli.OscBundle.__init__, oli.OscMessage.__init__)

    def get_int(dgram, idx):
        if not (dgram.len - idx >= 4):
            raise oli.OscTypeParseError('Datagram is too short')
        return size, idx + 4

    def sub_init(self, dgram):
        k = ctx.choose('element_parse', 2)
        if k:
            raise oli.OscMessageParseError('element does not parse')
    fake = oli.OscBundle.__new__(oli.OscBundle)
    fake._dgram = buf
    oli.get_int = get_int
    oli.OscBundle.__init__ = sub_init
    oli.OscMessage.__init__ = sub_init
    outcome = 'left'
    try:
        with symx.shims():
            try:
                oli.OscBundle._parse_contents(fake, index0)
            except StopSim:
                outcome = 'next-iteration'
            except oli.OscParseError:
                outcome = 'rejected'
    finally:
        oli.get_int, oli.OscBundle.__init__, oli.OscMessage.__init__ = saved
    if outcome == 'next-iteration':
        nxt = buf.whiles[1]
        ctx.prove(symx._t(nxt) > symx._t(index0), 'the bundle-element loop does not advance: a crafted element size '
                  'makes the receiver loop for ever', data('no-progress'))
    else:
        ctx.obligations += 1
        ctx.discharged += 1
    ctx.note('bundle:' + outcome)
    return {'outcome': outcome}


def job_bundle(j):
    st = explore(bundle_step, max_paths=10000, timeout_ms=20000, stop_on_violation=True)
    d = st.as_dict()
    for v in d['violations']:
        rec = v['data']['replay']
        rec['values'] = dict(v['model'])
        rec['what'] = v['what']
        rec['timeout_is_violation'] = True
    return d


# ------------------------------------------------------------------ (d) action registries

def registry_scenario(ctx, nops):
    from sc3.base import systemactions as sac, model as mdl
    which = ctx.choose('registry', 6)
    # action 0, when it runs, unregisters action 1 (system-action registries re-check before every action)
    killer = ctx.choose('killer', 2) if which in (0, 1, 5) else 0
    rec = {'mode': 'rt', 'kind': 'registry', 'nops': nops, 'killer': killer}
    hist = []

    def data(sub):
        return {'key': f'c18:registry:{sub}', 'replay': dict(rec, sub=sub, history=list(hist), which=which)}
    log = []
    fns = []
    box = {}
    for k in range(3):
        def mk(kk):
            def f(*a):
                log.append(kk)
                if kk == 0 and killer:
                    try:
                        box['rem'](fns[1])
                    except (KeyError, ValueError):
                        pass
            return f
        fns.append(mk(k))
    ref = []
    if which == 0:
        reg = sac.ShutDown
        add, rem, run = reg.add, reg.remove, reg.run
    elif which == 1:
        reg = sac.StartUp
        add, rem, run = reg.add, reg.remove, reg.run
    elif which in (3, 4):
        # server actions: registered for one server (3) or for 'all' servers (4), run for that server
        from sc3.synth import server as srv
        sv = srv.Server.default
        key = sv if which == 3 else 'all'
        reg = sac.ServerBoot
        reg.remove_all()
        add = lambda f: reg.add(key, f)          # noqa
        rem = lambda f: reg.remove(key, f)       # noqa
        run = lambda: reg.run(sv)                # noqa
    elif which == 5:
        reg = sac.CmdPeriod
        saved_opts = (reg.free_servers, reg.clear_clocks)
        reg.free_servers, reg.clear_clocks = False, False        # documented switches: only the registered actions run
        box['restore'] = lambda: (setattr(reg, 'free_servers', saved_opts[0]), setattr(reg, 'clear_clocks', saved_opts[1]))
        add, rem, run = reg.add, reg.remove, reg.run
    else:
        obj = object.__new__(type('Dep', (), {}))
        add = lambda f: mdl.NotificationCenter.register(obj, 'sig', f, f)      # noqa
        rem = lambda f: mdl.NotificationCenter.unregister(obj, 'sig', f)       # noqa
        run = lambda: mdl.NotificationCenter.notify(obj, 'sig')                # noqa
    try:
        for i in range(nops):
            op = ctx.choose(f'op{i}', 3)
            if op == 2:
                hist.append(['run'])
                log.clear()
                box['rem'] = rem
                run()
                mine = [x for x in log]
                exp = list(ref)
                after = list(ref)
                if killer and 0 in ref and 1 in ref:
                    if ref.index(0) < ref.index(1):
                        exp.remove(1)        # unregistered by action 0 before its turn: it does not run
                    after.remove(1)
                if mine != exp:
                    raise Violation(f'registry ran {mine}, currently registered (in order) {ref}' + (' where action 0 '
                                    'unregisters action 1 when it runs' if killer else '') + f', expected {exp}; history {hist}',
                                    None, data('run'))
                ref[:] = after
                ctx.obligations += 1
                ctx.discharged += 1
            else:
                k = ctx.choose(f'k{i}', 3)
                hist.append(['add' if op == 0 else 'remove', k])
                if op == 0:
                    add(fns[k])
                    if k not in ref:
                        ref.append(k)
                else:
                    try:
                        rem(fns[k])
                    except (KeyError, ValueError):
                        if k in ref:
                            raise
                    if k in ref:
                        ref.remove(k)
        ctx.note('registry:%d' % which)
    finally:
        for f in fns:
            try:
                rem(f)
            except Exception:
                pass
        if 'restore' in box:
            box['restore']()
    return {'registry': which, 'history': list(hist)}


def job_registry(j):
    st = explore(lambda c: registry_scenario(c, j['nops']), max_paths=200000, stop_on_violation=True)
    d = st.as_dict()
    for v in d['violations']:
        rec = v['data']['replay']
        rec['what'] = v['what']
    return d


# ------------------------------------------------------------------ replay

class _CCtx:
    def __init__(self, vals):
        self.vals = vals
        self.obligations = self.discharged = 0

    def choose(self, name, n):
        return int(self.vals.get(name, 0) or 0)

    def int(self, name, lo=None, hi=None):
        v = self.vals.get(name)
        return int(v) if v is not None else (lo or 0)

    def note(self, s):
        pass

    def assume(self, c):
        pass

    def prove(self, cond, what='', data=None):
        ok = cond if isinstance(cond, bool) else z3.is_true(z3.simplify(cond))
        if not ok:
            raise Violation(what, None, data)

    def valid(self, cond):
        return cond if isinstance(cond, bool) else z3.is_true(z3.simplify(cond))


def replay(rec):
    kind = rec['kind']
    if kind == 'match':
        from sc3.base import responders as rpd
        tokens, key = rec['tokens'], rec['key_string']
        got = rpd._match_osc_address_pattern(''.join(tokens), key)
        want = ref_match(tokens, key)
        return None if bool(got) == want else f'pattern {"".join(tokens)!r} vs key {key!r}: implementation says ' \
                                              f'{bool(got)}, OSC 1.0 says {want}'
    if kind == 'recvloop':
        sc = rec['script']
        kinds = RECV_KINDS
        vals = {'n': len(sc) - 1}
        for i, k in enumerate(sc):
            vals[f'd{i}'] = kinds.index(k)
        try:
            recvloop_scenario(_CCtx(vals))
        except Violation as v:
            return v.what
        return None
    if kind == 'nested':
        try:
            nested_scenario(_CCtx(dict(rec['sel'])))
        except Violation as v:
            return v.what
        return None
    if kind == 'filters':
        try:
            filters_scenario(_CCtx(dict(rec['sel'])))
        except Violation as v:
            return v.what
        return None
    if kind == 'dispatch':
        vals = dict(rec.get('values', {}))
        try:
            dispatch_scenario(_CCtx(vals), rec['nops'], rec['first'], rec.get('max_resp', 2), rec.get('rich', True))
        except Violation as v:
            return v.what
        except PathAbort:
            return None
        return None
    if kind == 'registry':
        vals = dict(rec.get('values', {}))
        vals['registry'] = rec.get('which', 0)
        vals['killer'] = rec.get('killer', 0)
        for i, h in enumerate(rec.get('history', [])):
            vals[f'op{i}'] = {'add': 0, 'remove': 1, 'run': 2}[h[0]]
            if len(h) > 1:
                vals[f'k{i}'] = h[1]
        rec = dict(rec, nops=len(rec.get('history', [])) or rec['nops'])
        try:
            registry_scenario(_CCtx(vals), rec['nops'])
        except Violation as v:
            return v.what
        return None
    if kind == 'bundle':
        import threading
        from sc3.base import _osclib as oli, main as _m
        vals = rec.get('values', {})
        size = int(vals.get('element_size', -4))
        # a datagram whose first element carries that size field
        d = b'#bundle\x00' + struct.pack('>Q', 1) + struct.pack('>i', size) + b'/a\x00\x00,\x00\x00\x00'
        done = {}

        def run():
            try:
                _m.main._osc_interface._handle_request(d, ('127.0.0.1', 9001))
                done['ok'] = True
            except BaseException as e:   # noqa
                done['exc'] = repr(e)
        t = threading.Thread(target=run, daemon=True)
        t.start()
        t.join(3.0)
        if t.is_alive():
            return f'a bundle element with size field {size} makes the receiver loop for ever (no return after 3 s)'
        if 'exc' in done:
            return f'_handle_request raised {done["exc"]} on a bundle element with size field {size}'
        return None
    if kind == 'xhair':
        from . import c06
        return c06.replay(rec)
    return None


# ------------------------------------------------------------------ main

def skeletons(nmax):
    out = []
    for n in range(0, nmax + 1):
        for toks in itertools.product(TOKENS, repeat=n):
            out.append(['/'] + list(toks))
    return out


def main(tier, seed):
    from sc3.base import responders as rpd, _oscmatch as om, _osclib as oli, systemactions as sac, model as mdl, \
        _oscinterface as osci
    from .. import xhair
    chk = Check(PID, 'model_checking', tier, seed)
    chk.functions = src_hash([om.osc_rematch_pattern, om._rewrite_func, rpd.OscMessageDispatcher,
                              rpd.OscMessagePatternDispatcher, rpd.AbstractWrappingDispatcher,
                              rpd.AbstractResponderFunc, rpd.OscArgsMatcher, rpd.OscFuncAddrMessageMatcher,
                              oli.OscBundle._parse_contents, osci.OscInterface._handle_request, sac.SystemAction,
                              mdl.NotificationCenter])
    sk = skeletons(2 if tier == 'quick' else 3)
    B = max(1, len(sk) // 48)
    jobs = [dict(skeletons=sk[i:i + B]) for i in range(0, len(sk), B)]
    for r in run_jobs('vf.props.c18', 'job_match', jobs, 'rt'):
        chk.add('matching', r)
    nops = 5
    first_sets = [[a, b, c] for a in (0, 1) for b in range(len(OPS)) for c in range(len(OPS))]
    djobs = [dict(nops=nops, first=f, max_resp=2 if tier == 'quick' else 3, rich=(tier != 'quick')) for f in first_sets]
    # the rich alphabet (source filter, other path, messages from another sender / to another path) at depth 4
    djobs += [dict(nops=4, first=[a, b], max_resp=2, rich=True) for a in (0, 1) for b in range(len(OPS))]
    for r in run_jobs('vf.props.c18', 'job_dispatch', djobs, 'rt'):
        chk.add('dispatch', r)
    for r in run_jobs('vf.props.c18', 'job_filters', [dict()], 'rt'):
        chk.add('filters', r)
    chk.require_notes('filters', ['filters'])
    for r in run_jobs('vf.props.c18', 'job_recvloop', [dict()], 'rt'):
        chk.add('recvloop', r)
    chk.require_notes('recvloop', ['recvloop'])
    for r in run_jobs('vf.props.c18', 'job_nested', [dict()], 'rt'):
        chk.add('nested_bundles', r)
    chk.require_notes('nested_bundles', ['nested'])
    for r in run_jobs('vf.props.c18', 'job_bundle', [dict()], 'rt'):
        chk.add('hostile_bundle', r)
    for r in run_jobs('vf.props.c18', 'job_registry', [dict(nops=4 if tier == 'quick' else 5)], 'rt'):
        chk.add('registries', r)
    # malformed datagrams must never raise into the receiver: CrossHair, bug hunting only
    hr = xhair.run_one('vf.xh.c18_recv.handle_request_never_raises', per_condition_timeout=30 if tier == 'quick' else 150)
    hunt = []
    if hr['status'] == 'refuted':
        chk.violations.append({'what': hr['detail'], 'model': {}, 'part': 'crosshair', 'job': hr['target'],
                               'data': {'key': 'c18:receiver-raises',
                                        'replay': {'mode': 'rt', 'kind': 'xhair', 'target': hr['target'],
                                                   'call': hr.get('call'), 'what': hr['detail']}}})
    else:
        hunt.append({'condition': hr['target'], 'verdict': hr['status'] + ' (bug hunting only)'})
    chk.require_notes('matching', ['match'])
    chk.require_notes('dispatch', ['dispatch'])
    chk.require_notes('hostile_bundle', ['bundle:next-iteration', 'bundle:rejected'])
    chk.require_notes('registries', ['registry:0', 'registry:1', 'registry:2', 'registry:3', 'registry:4', 'registry:5'])
    chk.bounds = {'pattern_skeletons': f'"/" + up to {2 if tier == "quick" else 3} tokens from {TOKENS}; keys: printable '
                                       'ASCII of any length', 'dispatch_histories': f'{nops} operations over {OPS}, 4 '
                                       'responder variants, 4 message variants, symbolic int argument',
                  'hostile_bundle': 'one loop iteration from any position < length <= 70000 with any int32 size field',
                  'registries': 'ShutDown, StartUp (SystemAction), NotificationCenter: histories of 4/5 add/remove/run over 3 actions',
                  'outside': 'UDP loopback delivery and SystemClock scheduling of the dispatch (C08); MIDI responders; '
                             'order across different responder paths in the pattern dispatcher'}
    chk.assumptions = ['OSC 1.0 reading used by the oracle: ? any one character, * any sequence (both may cross "/"), '
                       'sets/ranges/negation one character, {a,b} alternatives, the whole key must be consumed',
                       'the regex -> z3 converter covers the node kinds the rewrite table can produce; anything else is '
                       'inconclusive']
    return chk.finish(coverage_extra={'crosshair_bug_hunting_only': hunt},
                      explanation='z3 regular-language equivalence for the matcher, decision-tree model checking of '
                                  'dispatch/registry histories, SMT ranking obligation for the bundle-element loop')
