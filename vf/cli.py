"""./check <ID> --tier quick|thorough   |   ./check replay <path>"""
import argparse
import importlib
import json
import os
import sys


def main():
    if len(sys.argv) >= 2 and sys.argv[1] == 'replay':
        path = sys.argv[2]
        rec = json.load(open(path))
        pid = rec['property']
        mod = importlib.import_module(f'vf.props.{pid.lower()}')
        from .run import init_sc3
        init_sc3(rec.get('mode', 'nrt'))
        try:
            msg = mod.replay(rec)
        except BaseException as e:  # noqa
            import traceback
            traceback.print_exc()
            print('REPLAY ERROR', repr(e))
            sys.stdout.flush()
            os._exit(3)
        if msg:
            print(f'REPRODUCED property={pid} key={rec.get("key")}: {msg}')
            sys.stdout.flush()
            os._exit(1)
        print('NOT REPRODUCED')
        sys.stdout.flush()
        os._exit(0)
    ap = argparse.ArgumentParser()
    ap.add_argument('pid')
    ap.add_argument('--tier', default=os.environ.get('VERIF_TIER', 'quick'), choices=['quick', 'thorough'])
    a = ap.parse_args()
    seed = int(os.environ.get('VERIF_SEED', '0') or 0)
    mod = importlib.import_module(f'vf.props.{a.pid.lower()}')
    code = mod.main(a.tier, seed)
    sys.stdout.flush()
    os._exit(code)


if __name__ == '__main__':
    main()
