"""Independent OSC 1.0 reader / sizer (nothing imported from sc3).

decode(dgram) -> ('msg', address, [(tag, value), ...]) | ('bundle', timetag, [elements])
Strict: 4-byte alignment, NUL-terminated padded strings, size-prefixed blobs and bundle elements, big-endian numbers,
every byte consumed.
"""
import struct


class OscError(Exception):
    pass


def _str(b, i):
    j = b.find(b'\x00', i)
    if j < 0:
        raise OscError(f'unterminated string at {i}')
    s = b[i:j]
    end = j + 1
    pad = (4 - end % 4) % 4
    if end + pad > len(b):
        raise OscError(f'string padding runs past the end at {i}')
    if any(b[end:end + pad]):
        raise OscError(f'non-zero string padding at {end}')
    return s.decode('utf-8'), end + pad


def _need(b, i, n):
    if i + n > len(b):
        raise OscError(f'truncated: need {n} bytes at {i}, have {len(b) - i}')


def decode(b):
    b = bytes(b)
    if len(b) % 4:
        raise OscError(f'datagram length {len(b)} is not a multiple of 4')
    if b.startswith(b'#bundle\x00'):
        return _bundle(b)
    return _msg(b)


def _bundle(b):
    _need(b, 8, 8)
    tt = struct.unpack('>Q', b[8:16])[0]
    i = 16
    els = []
    while i < len(b):
        _need(b, i, 4)
        n = struct.unpack('>i', b[i:i + 4])[0]
        i += 4
        if n < 0 or n % 4:
            raise OscError(f'bundle element size {n}')
        _need(b, i, n)
        els.append(decode(b[i:i + n]))
        i += n
    return ('bundle', tt, els)


def _msg(b):
    if not b.startswith(b'/'):
        raise OscError('address does not start with /')
    addr, i = _str(b, 0)
    if i >= len(b):
        return ('msg', addr, [])      # OSC 1.0 allows (older) messages without type tag string
    if b[i:i + 1] != b',':
        raise OscError('type tag string does not start with ,')
    tags, i = _str(b, i)
    args = []
    stack = [args]
    for t in tags[1:]:
        if t == 'i':
            _need(b, i, 4)
            stack[-1].append(('i', struct.unpack('>i', b[i:i + 4])[0]))
            i += 4
        elif t == 'f':
            _need(b, i, 4)
            stack[-1].append(('f', struct.unpack('>f', b[i:i + 4])[0]))
            i += 4
        elif t == 'd':
            _need(b, i, 8)
            stack[-1].append(('d', struct.unpack('>d', b[i:i + 8])[0]))
            i += 8
        elif t == 's':
            s, i = _str(b, i)
            stack[-1].append(('s', s))
        elif t == 'b':
            _need(b, i, 4)
            n = struct.unpack('>i', b[i:i + 4])[0]
            i += 4
            if n < 0:
                raise OscError('negative blob size')
            _need(b, i, n)
            data = b[i:i + n]
            i += n
            pad = (4 - n % 4) % 4
            _need(b, i, pad)
            if any(b[i:i + pad]):
                raise OscError('non-zero blob padding')
            i += pad
            stack[-1].append(('b', data))
        elif t == 't':
            _need(b, i, 8)
            stack[-1].append(('t', struct.unpack('>Q', b[i:i + 8])[0]))
            i += 8
        elif t in 'TFN':
            stack[-1].append((t, {'T': True, 'F': False, 'N': None}[t]))
        elif t == '[':
            new = []
            stack[-1].append(('[', new))
            stack.append(new)
        elif t == ']':
            if len(stack) < 2:
                raise OscError('unbalanced ]')
            stack.pop()
        else:
            raise OscError(f'unknown type tag {t!r}')
    if len(stack) != 1:
        raise OscError('unbalanced [')
    if i != len(b):
        raise OscError(f'{len(b) - i} trailing bytes after the arguments')
    return ('msg', addr, args)


def messages(tree, tt=None):
    """flatten: list of (timetag or None, address, args)"""
    if tree[0] == 'msg':
        return [(tt, tree[1], tree[2])]
    out = []
    for e in tree[2]:
        out += messages(e, tree[1])
    return out
