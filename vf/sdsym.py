"""Shared helpers for the SynthDef checks (C01, C02, C03, C04, C20): run the real builder with symbolic constants and
decode its bytes with the independent reader."""
import z3
from . import symx, scgf
from .symx import Ctx, SymReal, Violation


class SDEnv:
    """context: every sc3 module sees the proxies as numbers; the binary writer packs class representatives;
    concrete float constants join the equivalence classes of the symbolic ones."""

    def __enter__(self):
        from sc3.synth import _fmtrw as frw
        self.sh = symx.shims(extra={'sc3.synth._fmtrw': {'struct': symx.StructShim}})
        self.sh.__enter__()
        self.frw = frw
        if Ctx.cur is not None:
            Ctx.cur.track_consts = True
        return self

    def __exit__(self, *a):
        if Ctx.cur is not None:
            Ctx.cur.track_consts = False
        self.sh.__exit__()
        return False


def build_bytes(name, func, **kw):
    """SynthDef(name, func, **kw).as_bytes() under the symbolic environment"""
    from sc3.synth import synthdef as sdf
    with SDEnv():
        sd = sdf.SynthDef(name, func, **kw)
        b = bytes(sd.as_bytes())
    return sd, b


def cterm(v):
    """decoded f32 constant -> z3 real term (class term for placeholders)"""
    t = symx.rep_term(v) if Ctx.cur is not None else None
    if t is not None:
        return symx._real(t)
    return z3.RealVal(repr(v))


class Denot:
    """denotation of a decoded definition as z3 real terms"""

    def __init__(self, d, leaf_of=None):
        self.d = d
        self.vals = []          # per unit: list of output terms (or None)
        self.outs = []          # list of (unit index, cls, rate, [input terms])
        self.tags = []          # tags of leaf units seen (with multiplicity)
        self.notes = []
        self.leaf_of = leaf_of or {}
        self._run()

    def inp(self, i, k):
        u = self.d['ugens'][i]
        ui, oi = u['ins'][k]
        if ui == -1:
            return cterm(self.d['consts'][oi])
        return self.vals[ui][oi]

    def in_rate(self, i, k):
        u = self.d['ugens'][i]
        ui, oi = u['ins'][k]
        if ui == -1:
            return 0
        return self.d['ugens'][ui]['outs'][oi]

    def _run(self):
        d = self.d
        for i, u in enumerate(d['ugens']):
            c = u['cls']
            n = len(u['ins'])
            ins = [self.inp(i, k) for k in range(n)]
            if c == 'BinaryOpUGen':
                a, b = ins
                sp = u['spec']
                if sp == 0:
                    v = a + b
                elif sp == 1:
                    v = a - b
                elif sp == 2:
                    v = a * b
                elif sp == 4:
                    v = a / b
                else:
                    v = z3.Function(f'binop{sp}', z3.RealSort(), z3.RealSort(), z3.RealSort())(a, b)
                self.vals.append([v])
            elif c == 'UnaryOpUGen':
                sp = u['spec']
                if sp == 0:
                    v = -ins[0]
                else:
                    v = z3.Function(f'unop{sp}', z3.RealSort(), z3.RealSort())(ins[0])
                self.vals.append([v])
            elif c == 'MulAdd':
                self.vals.append([ins[0] * ins[1] + ins[2]])
            elif c == 'Sum3':
                self.vals.append([ins[0] + ins[1] + ins[2]])
            elif c == 'Sum4':
                self.vals.append([ins[0] + ins[1] + ins[2] + ins[3]])
            elif c in ('DC',):
                self.vals.append(list(ins))
            elif c in ('K2A', 'A2K'):
                self.vals.append([ins[0]])
            elif c in ('Control', 'TrigControl', 'AudioControl', 'LagControl'):
                self.vals.append([z3.Real(f'ctl_{u["spec"] + k}') for k in range(len(u['outs']))])
            elif c in ('Out', 'ReplaceOut', 'OffsetOut', 'LocalOut', 'XOut'):
                self.vals.append([])
                self.outs.append((i, c, u['rate'], ins))
            else:
                # stateful / opaque unit: identified by its first constant input (the tag) when there is one
                tag = None
                for (ui, oi) in u['ins']:
                    if ui == -1:
                        tag = d['consts'][oi]
                        break
                self.tags.append((c, tag))
                key = f'{c}_{int(tag) if tag is not None and tag == int(tag) else tag}'
                self.vals.append([z3.Real(f'leaf_{key}_{k}' if len(u['outs']) > 1 else f'leaf_{key}')
                                  for k in range(len(u['outs']))])


ARITH = ('BinaryOpUGen', 'UnaryOpUGen', 'MulAdd', 'Sum3', 'Sum4')


def check_rates(ctx, d, den, data, created=None):
    """arithmetic units run at the highest rate among their inputs; other units keep their creation rate"""
    for i, u in enumerate(d['ugens']):
        if u['cls'] in ARITH:
            want = max([den.in_rate(i, k) for k in range(len(u['ins']))] or [0])
            if u['rate'] != want or any(o != want for o in u['outs']):
                raise Violation(f'unit {i} {u["cls"]}(spec {u["spec"]}) runs at rate {u["rate"]}, the highest input '
                                f'rate is {want}', None, data('rate'))
        elif created is not None:
            key = None
            for (c, tag) in [(u['cls'], None)]:
                pass
            for (ui, oi) in u['ins']:
                if ui == -1:
                    key = (u['cls'], d['consts'][oi])
                    break
            if key in created and created[key] != u['rate']:
                raise Violation(f'unit {i} {u["cls"]} was created at rate {created[key]} but is written with rate '
                                f'{u["rate"]}', None, data('created-rate'))
    ctx.obligations += 1
    ctx.discharged += 1


def avoid(ctx, syms, tags):
    """symbolic constants are assumed different from the tag constants that identify leaf units in the bytes"""
    for x in syms:
        if not hasattr(x, 'e'):
            continue          # concrete replay: the model already satisfies the assumption
        for t in tags:
            ctx.assume(x.e != z3.RealVal(t))
