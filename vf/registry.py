"""Single source for MANIFEST.json: which properties are claimed, at which level, by which method.

`python -m vf.registry` regenerates /verif/MANIFEST.json (validated against the schema when available).
"""
import json, os

ROOT = os.path.dirname(os.path.dirname(os.path.abspath(__file__)))

ALL_IDS = ['C%02d' % i for i in range(1, 21)]

# id -> dict(level, text, note, technique, design_ref)
CLAIMED = {}

# id -> reason (for every id not in CLAIMED)
NOT_APPLICABLE = {i: 'check not built yet in this round (work in progress); see DESIGN.md section 3 for the plan'
                  for i in ALL_IDS}


def claim(pid, level, text, note, technique, design_ref):
    CLAIMED[pid] = dict(level=level, text=text, note=note, technique=technique, design_ref=design_ref)
    NOT_APPLICABLE.pop(pid, None)


def _load_claims():
    from . import claims  # noqa: F401  (fills CLAIMED)


def manifest():
    _load_claims()
    checks = []
    for pid in ALL_IDS:
        if pid not in CLAIMED:
            continue
        c = CLAIMED[pid]
        checks.append({
            'property_id': pid,
            'quick_cmd': f'./check {pid} --tier quick',
            'thorough_cmd': f'./check {pid} --tier thorough',
            'evidence_file': f'/verif/evidence/{pid}.json',
            'replay_cmd_template': './check replay {path}',
            'engine': 'symx',
            'level_claimed': {'category': c['level'], 'text': c['text'], 'design_ref': c['design_ref']},
            'level_note': c['note'],
            'technique': c['technique'],
        })
    return {
        'version': 1,
        'setup_cmd': './setup.sh',
        'hooks': {
            'guard': 'SC3_VERIF',
            'enable': 'no hooks are compiled into /repo: checks import /repo\'s working tree directly and install '
                      'their shims by monkeypatching at run time (SC3_VERIF is reserved and unused)',
            'baseline_off_cmd': 'cd /repo && /venv/bin/python -m pytest -ra -q -p no:cacheprovider --timeout=900 '
                                '--continue-on-collection-errors',
            'source_commits': [],
            'add_only': True,
        },
        'engines': [
            {'name': 'symx', 'path': 'vf/symx.py', 'serves_properties': sorted(CLAIMED),
             'kind_free_text': 'concolic proxy execution of the real sc3 objects over z3 (Int/Real terms, fork at '
                               'bool(), DFS re-execution), obligations discharged by z3 per path'},
            {'name': 'crosshair', 'path': 'vf/xhair.py', 'serves_properties': ['C06', 'C18'],
             'kind_free_text': 'CrossHair 0.0.110 symbolic execution of the real str/bytes codecs'},
        ],
        'checks': checks,
        'not_applicable': [{'property_id': p, 'reason': NOT_APPLICABLE[p]} for p in ALL_IDS if p in NOT_APPLICABLE],
        'notes': 'Solver-based checking of the real code; see DESIGN.md. Exit codes: 0 held, 1 VIOLATION (replayed), '
                 '3 inconclusive/harness error (never on the unchanged tree for registered bounds).',
    }


if __name__ == '__main__':
    from vf import registry as _r
    m = _r.manifest()
    path = os.path.join(ROOT, 'MANIFEST.json')
    with open(path, 'w') as f:
        json.dump(m, f, indent=1)
        f.write('\n')
    try:
        import jsonschema
        jsonschema.validate(m, json.load(open('/root/.vp/MANIFEST.schema.json')))
        print('MANIFEST.json written and validated:', len(m['checks']), 'checks,', len(m['not_applicable']), 'n/a')
    except ImportError:
        print('MANIFEST.json written (jsonschema not available here):', len(m['checks']), 'checks')
