"""symx -- concolic proxy execution of real Python objects over z3.

Values that the code under test computes with are proxies wrapping z3 terms:

  SymReal   z3 Real   (stated abstraction: exact reals stand for Python floats)
  SymInt    z3 Int    (with optional bounds: __index__ concretises by forking, in increasing order)
  SymBool   z3 Bool   (the only fork point is __bool__)

Neither proxy subclasses float/int: CPython's C API reads the raw payload of such subclasses without calling any
dunder (measured: `0.5 * <int subclass>`, `range(x)`, `float(x)`, `struct.pack`), which silently concretises.  As plain
objects they are reachable from C only through __index__ (fork) or __float__ (loud error), and the library sees them
as numbers through the `type`/`int`/`float`/`math` shims installed in the globals of every sc3 module (class shims).

`explore(harness)` re-executes `harness(ctx)` once per feasible path, depth first over the recorded decision
stack.  `ctx.prove(cond)` discharges an obligation for *all* values satisfying the path condition; a model is a
counterexample.  `unknown` is never success: it raises Inconclusive.
"""
import itertools
import math
import time
from fractions import Fraction

import z3

POISON = -(10 ** 15) - 7        # payload of SymInt: loud if read by C code


class PathAbort(BaseException):
    """The current path is infeasible / outside the harness's assumptions (not an error)."""


class Inconclusive(BaseException):
    """Solver said unknown, budget exhausted, or the harness detected a modelling error."""


class Violation(BaseException):
    def __init__(self, what, model=None, data=None):
        super().__init__(what)
        self.what = what
        self.model = model
        self.data = data or {}


_uid = itertools.count()


class Ctx:
    cur = None

    def __init__(self, prefix, timeout_ms=20000, concrete=None):
        self.solver = z3.Solver()
        self.solver.set('timeout', timeout_ms)
        self.prefix = prefix          # list of [chosen, [remaining alternatives]]
        self.pos = 0
        self.vars = {}                # name -> z3 var
        self.nqueries = 0
        self.solver_s = 0.0
        self.obligations = 0
        self.discharged = 0
        self.notes = []               # free-form per-path notes (control classes reached ...)
        self.classes = []             # equivalence classes for hashing SymReal/SymInt: (term, representative)
        self._model = None
        self._names = set()
        self.concrete = concrete      # dict name -> python value: run the harness concretely (no proxies)
        self.axioms_used = set()
        self._uf_apps = {}
        self.track_consts = False   # SynthDef harnesses: concrete floats join the constant equivalence classes
        self.retry_timeout_ms = max(timeout_ms, 10000)

    # ---- variables
    def _uname(self, name):
        if name in self._names:
            k = 2
            while f'{name}#{k}' in self._names:
                k += 1
            name = f'{name}#{k}'
        self._names.add(name)
        return name

    def real(self, name, lo=None, hi=None, lo_strict=False, hi_strict=False):
        name = self._uname(name)
        if self.concrete is not None:
            return float(self.concrete.get(name, 0.0))
        v = z3.Real(name)
        self.vars[name] = v
        if lo is not None:
            self.assume(v > _t(lo) if lo_strict else v >= _t(lo))
        if hi is not None:
            self.assume(v < _t(hi) if hi_strict else v <= _t(hi))
        return SymReal(v)

    def int(self, name, lo=None, hi=None):
        name = self._uname(name)
        if self.concrete is not None:
            return int(self.concrete.get(name, lo or 0))
        v = z3.Int(name)
        self.vars[name] = v
        if lo is not None:
            self.assume(v >= lo)
        if hi is not None:
            self.assume(v <= hi)
        return SymInt(v, lo if isinstance(lo, int) else None, hi if isinstance(hi, int) else None)

    def idx(self, name, lo, hi):
        """count/index/size: never an int subclass; concretised on demand over [lo, hi] in increasing order."""
        name = self._uname(name)
        if self.concrete is not None:
            return int(self.concrete.get(name, lo))
        v = z3.Int(name)
        self.vars[name] = v
        self.assume(v >= lo)
        self.assume(v <= hi)
        return SymInt(v, lo, hi)

    def choose(self, name, n):
        """finite control choice 0..n-1 explored completely (no solver involved)."""
        name = self._uname(name)
        if self.concrete is not None:
            return int(self.concrete.get(name, 0))
        if n <= 1:
            return 0
        if self.pos < len(self.prefix):
            c = self.prefix[self.pos][0]
        else:
            c = 0
            self.prefix.append([0, list(range(1, n))])
        self.pos += 1
        self.vars[name] = ('choice', c)
        return c

    # ---- solver
    def assume(self, cond):
        cond = _b(cond)
        self.solver.add(cond)
        self._model = None

    def _check(self, *extra):
        t = time.time()
        self.nqueries += 1
        r = self.solver.check(*extra)
        self.solver_s += time.time() - t
        return r

    def feasible(self):
        r = self._check()
        if r == z3.unknown:
            raise Inconclusive('unknown in feasibility check: ' + self.solver.reason_unknown())
        return r == z3.sat

    def model(self):
        if self._model is None:
            r = self._check()
            if r != z3.sat:
                if r == z3.unknown:
                    raise Inconclusive('unknown: ' + self.solver.reason_unknown())
                raise PathAbort('infeasible')
            self._model = self.solver.model()
        return self._model

    def branch(self, cond):
        cond = z3.simplify(cond)
        if z3.is_true(cond):
            return True
        if z3.is_false(cond):
            return False
        if self.pos < len(self.prefix):
            taken = self.prefix[self.pos][0]
        else:
            # which outcomes are feasible?  use the cached model as a witness for one side.
            m = self.model()
            mv = m.eval(cond, model_completion=True)
            if z3.is_true(mv):
                t_ok = True
                r = self._check(z3.Not(cond))
                if r == z3.unknown:
                    raise Inconclusive('unknown at branch: ' + self.solver.reason_unknown())
                f_ok = r == z3.sat
            elif z3.is_false(mv):
                f_ok = True
                r = self._check(cond)
                if r == z3.unknown:
                    raise Inconclusive('unknown at branch: ' + self.solver.reason_unknown())
                t_ok = r == z3.sat
            else:
                r = self._check(cond)
                if r == z3.unknown:
                    raise Inconclusive('unknown at branch')
                t_ok = r == z3.sat
                r = self._check(z3.Not(cond))
                if r == z3.unknown:
                    raise Inconclusive('unknown at branch')
                f_ok = r == z3.sat
            if t_ok:
                taken = True
                rest = [False] if f_ok else []
            elif f_ok:
                taken = False
                rest = []
            else:
                raise PathAbort('infeasible')
            self.prefix.append([taken, rest])
        self.pos += 1
        self.solver.add(cond if taken else z3.Not(cond))
        # the cached model stays valid only if it agrees with the side taken
        if self._model is not None:
            mv = self._model.eval(cond, model_completion=True)
            if not ((taken and z3.is_true(mv)) or ((not taken) and z3.is_false(mv))):
                self._model = None
        return taken

    def prove(self, cond, what='', data=None):
        """Obligation: cond holds for every value satisfying the path condition.  Raises Violation with a model."""
        self.obligations += 1
        if isinstance(cond, bool):
            if cond:
                self.discharged += 1
                return
            raise Violation(what, self.model(), data)
        c = _b(cond)
        r = self._check(z3.Not(c))
        if r == z3.unknown:
            r = self._retry(z3.Not(c))
        if r == z3.unsat:
            self.discharged += 1
            return
        if r == z3.unknown:
            raise Inconclusive(f'unknown on obligation {what}: ' + self.solver.reason_unknown())
        self.solver.push()
        self.solver.add(z3.Not(c))
        self._check()
        m = self.solver.model()
        # prefer a counterexample a concrete replay can see: no variable of microscopic magnitude (solvers like to sit on
        # the boundary, e.g. 2^-32 s); fall back to the first model when no such counterexample exists
        try:
            nice = [z3.Or(v == 0, v >= 0.125, v <= -0.125) for v in self.vars.values()
                    if not isinstance(v, tuple) and z3.is_real(v)]
            if nice:
                self.solver.push()
                self.solver.add(*nice)
                if self._check() == z3.sat:
                    m = self.solver.model()
                self.solver.pop()
        except z3.Z3Exception:
            pass
        self.solver.pop()
        raise Violation(what, m, data)

    def _retry(self, extra):
        """second opinion on an `unknown`: fresh non-incremental solvers specialised for non-linear reals"""
        t = time.time()
        res = z3.unknown
        for mk in (lambda: z3.Tactic('qfnra-nlsat').solver(), lambda: z3.SolverFor('QF_NRA'),
                   lambda: z3.Then('simplify', 'solve-eqs', 'smt').solver()):
            try:
                s2 = mk()
                s2.set('timeout', self.retry_timeout_ms)
                s2.add(*self.solver.assertions())
                s2.add(extra)
                self.nqueries += 1
                res = s2.check()
            except z3.Z3Exception:
                res = z3.unknown
            if res != z3.unknown:
                break
        self.solver_s += time.time() - t
        return res

    def valid(self, cond):
        """Does cond hold on the whole path?  (no obligation bookkeeping; used by oracles)"""
        if isinstance(cond, bool):
            return cond
        r = self._check(z3.Not(_b(cond)))
        if r == z3.unknown:
            raise Inconclusive('unknown in valid()')
        return r == z3.unsat

    def note(self, s):
        self.notes.append(s)

    def model_values(self, m=None):
        m = m or self.model()
        out = {}
        for k, v in self.vars.items():
            if isinstance(v, tuple):
                out[k] = v[1]
            else:
                out[k] = _pyval(m.eval(v, model_completion=True))
        return out


def _pyval(v):
    if z3.is_int_value(v):
        return v.as_long()
    if z3.is_rational_value(v):
        fr = v.as_fraction()
        return fr.numerator if fr.denominator == 1 else float(fr)
    if z3.is_algebraic_value(v):
        return float(v.approx(20).as_fraction())
    if z3.is_true(v):
        return True
    if z3.is_false(v):
        return False
    return str(v)


def is_sym(x):
    return isinstance(x, (SymReal, SymInt, SymIdx, SymBool))


def _t(x):
    """python value or proxy -> z3 arithmetic term (None for +-inf / nan)."""
    if isinstance(x, (SymReal, SymInt, SymIdx)):
        return x.e
    if isinstance(x, SymBool):
        return z3.If(x.e, z3.IntVal(1), z3.IntVal(0))
    if isinstance(x, bool):
        return z3.IntVal(int(x))
    if isinstance(x, int):
        return z3.IntVal(x)
    if isinstance(x, float):
        if x != x or x in (math.inf, -math.inf):
            return None
        fr = Fraction(x)
        if fr.denominator <= (1 << 40):
            return z3.RealVal(fr)              # short dyadic value (0.5, 440.0, 2**-32 ...): exact
        return z3.RealVal(Fraction(repr(x)))   # otherwise the decimal meaning of the literal (0.05 is 1/20)
    if isinstance(x, Fraction):
        return z3.RealVal(x)
    if z3.is_expr(x):
        return x
    raise TypeError(f'not a number: {type(x)}')


def _b(x):
    if isinstance(x, SymBool):
        return x.e
    if isinstance(x, bool):
        return z3.BoolVal(x)
    if z3.is_expr(x):
        return x
    raise TypeError(f'not a bool: {type(x)}')


def _coerce(a, b):
    if z3.is_int(a) and z3.is_real(b):
        return z3.ToReal(a), b
    if z3.is_real(a) and z3.is_int(b):
        return a, z3.ToReal(b)
    return a, b


def wrap(e):
    if z3.is_bool(e):
        return SymBool(e)
    e = z3.simplify(e)
    if z3.is_int(e):
        return SymInt(e)
    return SymReal(e)


class SymBool:
    def __init__(self, e):
        self.e = e

    def __bool__(self):
        return Ctx.cur.branch(self.e)

    def __and__(self, o):
        return SymBool(z3.And(self.e, _b(o)))

    __rand__ = __and__

    def __or__(self, o):
        return SymBool(z3.Or(self.e, _b(o)))

    __ror__ = __or__

    def __invert__(self):
        return SymBool(z3.Not(self.e))

    def __eq__(self, o):
        return SymBool(self.e == _b(o))

    def __ne__(self, o):
        return SymBool(self.e != _b(o))

    __hash__ = None

    def __repr__(self):
        return f'SymBool({self.e})'


def _inf_cmp(op, o):
    # comparing a finite symbolic number with +-inf / nan
    if o != o:
        return op == 'ne'
    pos = o > 0
    return {'lt': pos, 'le': pos, 'gt': not pos, 'ge': not pos, 'eq': False, 'ne': True}[op]


def to_int_trunc(e):
    """int(x) for a real term: truncation toward zero."""
    if z3.is_int(e):
        return e
    return z3.If(e >= 0, z3.ToInt(e), -z3.ToInt(-e))


def floor_t(e):
    return e if z3.is_int(e) else z3.ToInt(e)


def ceil_t(e):
    return e if z3.is_int(e) else -z3.ToInt(-e)


class _Num:
    __slots__ = ()

    def _bin(s, o, f, r=False):
        try:
            t = _t(o)
        except TypeError:
            return NotImplemented
        if t is None:
            return NotImplemented_inf(s, o, f, r)
        a, b = _coerce(s.e, t)
        if r:
            a, b = b, a
        return wrap(f(a, b))

    def __add__(s, o):
        return s._bin(o, lambda a, b: a + b)

    def __radd__(s, o):
        return s._bin(o, lambda a, b: a + b, True)

    def __sub__(s, o):
        return s._bin(o, lambda a, b: a - b)

    def __rsub__(s, o):
        return s._bin(o, lambda a, b: a - b, True)

    def __mul__(s, o):
        return s._bin(o, lambda a, b: a * b)

    def __rmul__(s, o):
        return s._bin(o, lambda a, b: a * b, True)

    def __neg__(s):
        return wrap(-s.e)

    def __pos__(s):
        return s

    def __abs__(s):
        return wrap(z3.If(s.e >= 0, s.e, -s.e))

    def _div(s, o, r=False):
        try:
            t = _t(o)
        except TypeError:
            return NotImplemented
        if t is None:
            if r:
                return o  # inf / x  (sign ignored: callers guard)
            return 0.0
        a, b = (t, s.e) if r else (s.e, t)
        if z3.is_int(a):
            a = z3.ToReal(a)
        if z3.is_int(b):
            b = z3.ToReal(b)
        if Ctx.cur.branch(b == 0):
            raise ZeroDivisionError('float division by zero')
        return wrap(a / b)

    def __truediv__(s, o):
        return s._div(o)

    def __rtruediv__(s, o):
        return s._div(o, True)

    def _fdm(s, o, r, which):
        try:
            t = _t(o)
        except TypeError:
            return NotImplemented
        if t is None:
            return NotImplemented
        a, b = (t, s.e) if r else (s.e, t)
        if Ctx.cur.branch(b == 0):
            raise ZeroDivisionError('modulo by zero')
        if z3.is_int(a) and z3.is_int(b):
            if z3.is_int_value(b) and b.as_long() > 0:
                q = a / b            # z3 integer division floors for a positive divisor
            else:
                q = z3.ToInt(z3.ToReal(a) / z3.ToReal(b))
            m = a - q * b
        else:
            a, b = _coerce(a, b)
            if z3.is_int(a):
                a, b = z3.ToReal(a), z3.ToReal(b)
            q = z3.ToReal(z3.ToInt(a / b))
            m = a - q * b
        return wrap(q if which == 'q' else m)

    def __floordiv__(s, o):
        return s._fdm(o, False, 'q')

    def __rfloordiv__(s, o):
        return s._fdm(o, True, 'q')

    def __mod__(s, o):
        return s._fdm(o, False, 'm')

    def __rmod__(s, o):
        return s._fdm(o, True, 'm')

    def __pow__(s, o, mod=None):
        if isinstance(o, int) and not isinstance(o, bool) and 0 <= o <= 8:
            r = 1
            for _ in range(o):
                r = r * s
            return r
        if not isinstance(o, (int, float, SymInt, SymReal)):
            return NotImplemented
        return uf_pow(s, o)

    def __rpow__(s, o):
        if not isinstance(o, (int, float, SymInt, SymReal)):
            return NotImplemented
        return uf_pow(o, s)

    def _cmp(s, o, op, f):
        try:
            t = _t(o)
        except TypeError:
            if op == 'eq':
                return False
            if op == 'ne':
                return True
            return NotImplemented
        if t is None:
            return _inf_cmp(op, o)
        a, b = _coerce(s.e, t)
        return SymBool(f(a, b))

    def __lt__(s, o):
        return s._cmp(o, 'lt', lambda a, b: a < b)

    def __le__(s, o):
        return s._cmp(o, 'le', lambda a, b: a <= b)

    def __gt__(s, o):
        return s._cmp(o, 'gt', lambda a, b: a > b)

    def __ge__(s, o):
        return s._cmp(o, 'ge', lambda a, b: a >= b)

    def __eq__(s, o):
        return s._cmp(o, 'eq', lambda a, b: a == b)

    def __ne__(s, o):
        return s._cmp(o, 'ne', lambda a, b: a != b)

    def __bool__(s):
        return Ctx.cur.branch(s.e != 0)

    def __copy__(s):
        return s

    def __deepcopy__(s, memo):
        return s

    def __hash__(s):
        return hash(class_rep(s))

    # -- concretisation (forks)
    def concretize(s, lo=None, hi=None):
        ctx = Ctx.cur
        if lo is not None and hi is not None and hi - lo <= 64:
            for v in range(lo, hi + 1):
                if ctx.branch(s.e == v):
                    return v
            raise PathAbort('out of range')
        while True:
            m = ctx.model()
            v = m.eval(s.e, model_completion=True)
            if ctx.branch(s.e == v):
                return _pyval(v)


def NotImplemented_inf(s, o, f, r):
    # arithmetic with inf/nan: result is the float result of the infinite operand with any finite number
    try:
        return f(o, 1.0) if r else f(1.0, o)
    except Exception:
        return float('nan')


def class_rep(x):
    """Representative of x's equivalence class among the hashed symbolic values of this path (forks on equality).

    Representatives of symbolic classes are distinct f32-exact floats >= 1000.5 so that they survive struct.pack('>f').
    """
    ctx = Ctx.cur
    for (t, rep) in ctx.classes:
        a, b = _coerce(x.e, t)
        if ctx.branch(a == b):
            return rep
    rep = 1000.5 + len(ctx.classes)
    ctx.classes.append((x.e, rep))
    return rep


def pack_rep(x):
    """representative used when a symbolic real is *written* (struct.pack): the class it was hashed into if its term
    is syntactically known, otherwise a fresh placeholder -- no equality forks (positions, not dict keys)."""
    ctx = Ctx.cur
    for (t, rep) in ctx.classes:
        if z3.eq(t, x.e):
            return rep
    rep = 1000.5 + len(ctx.classes)
    ctx.classes.append((x.e, rep))
    return rep


def register_const(v):
    """A concrete number used as a dict key next to symbolic ones: make it a class of its own (forks on equality)."""
    ctx = Ctx.cur
    t = _t(v)
    if t is None:
        return v
    for (t2, rep) in ctx.classes:
        a, b = _coerce(t, t2)
        if z3.is_true(z3.simplify(a == b)):
            return rep
    for (t2, rep) in ctx.classes:
        a, b = _coerce(t, t2)
        if ctx.branch(a == b):
            return rep
    ctx.classes.append((t, v))
    return v


def rep_term(rep):
    """f32 value read back from bytes -> term of its class (or None)."""
    import struct
    for (t, r) in Ctx.cur.classes:
        try:
            if struct.unpack('>f', struct.pack('>f', r))[0] == rep:
                return t
        except (OverflowError, struct.error):
            pass
    return None


class SymInt(_Num):
    """Symbolic integer.  Deliberately NOT a subclass of int: C code can only reach it through __index__ (which
    concretises by forking, over [lo, hi] in increasing order when bounds are known) and binary operators of real
    ints/floats return NotImplemented so that the reflected dunders below run.  Library modules see it as an int
    through the IntShim installed in their globals."""

    def __init__(s, e, lo=None, hi=None):
        s.e = e
        s.lo = lo
        s.hi = hi

    def __index__(s):
        return s.concretize(s.lo, s.hi)

    def __int__(s):
        return s.concretize(s.lo, s.hi)

    def __float__(s):
        raise Inconclusive('C-level float() of a symbolic integer (missing shim)')

    def __trunc__(s):
        return s

    def __floor__(s):
        return s

    def __ceil__(s):
        return s

    def __round__(s, n=None):
        return s

    def _bits(s, o, f, r=False):
        t = _t(o)
        a, b = (t, s.e) if r else (s.e, t)
        return wrap(z3.BV2Int(f(z3.Int2BV(a, 64), z3.Int2BV(b, 64)), True))

    def _bit(s, j):
        # bit j of a (two's complement, arbitrary precision) integer, in linear arithmetic
        return (s.e / (1 << j)) % 2

    def _const_bits(s, o):
        if isinstance(o, int) and o >= 0 and bin(o).count('1') <= 40:
            return [j for j in range(o.bit_length()) if o >> j & 1]
        return None

    def __and__(s, o):
        js = s._const_bits(o)
        if js is not None:
            return wrap(z3.Sum([z3.IntVal(0)] + [s._bit(j) * (1 << j) for j in js]))
        return s._bits(o, lambda a, b: a & b)

    __rand__ = __and__

    def __or__(s, o):
        js = s._const_bits(o)
        if js is not None:
            return wrap(s.e + z3.Sum([z3.IntVal(0)] + [(1 - s._bit(j)) * (1 << j) for j in js]))
        return s._bits(o, lambda a, b: a | b)

    __ror__ = __or__

    def __xor__(s, o):
        return s._bits(o, lambda a, b: a ^ b)

    def __lshift__(s, o):
        if isinstance(o, int):
            return wrap(s.e * (1 << o))
        return s._bits(o, lambda a, b: a << b)

    def __rshift__(s, o):
        if isinstance(o, int):
            return wrap(z3.ToInt(z3.ToReal(s.e) / (1 << o)))
        return s._bits(o, lambda a, b: a >> b)

    def __repr__(s):
        return f'SymInt({s.e})'

    __str__ = __repr__

    def __reduce__(s):
        raise TypeError('SymInt is not picklable')


SymIdx = SymInt


class SymReal(_Num):
    """Symbolic real standing for a Python float.  NOT a subclass of float (C code would silently read a payload):
    a C-level float() conversion is a loud modelling error."""

    def __init__(s, e):
        s.e = e

    def __float__(s):
        raise Inconclusive('C-level float() of a symbolic real (missing shim)')

    def __int__(s):
        raise Inconclusive('C-level int() of a symbolic real (missing shim)')

    def __index__(s):
        raise TypeError("'float' object cannot be interpreted as an integer")

    def __trunc__(s):
        return SymInt(to_int_trunc(s.e))

    def __floor__(s):
        return SymInt(floor_t(s.e))

    def __ceil__(s):
        return SymInt(ceil_t(s.e))

    def __round__(s, n=None):
        if n is not None:
            raise Inconclusive('round(x, n) on a symbolic real is not modelled')
        fl = z3.ToInt(s.e)
        fr = s.e - z3.ToReal(fl)
        half_even = z3.If(fl % 2 == 0, fl, fl + 1)
        return SymInt(z3.If(fr < z3.RealVal('1/2'), fl, z3.If(fr > z3.RealVal('1/2'), fl + 1, half_even)))

    def is_integer(s):
        return SymBool(z3.ToReal(z3.ToInt(s.e)) == s.e)

    def __repr__(s):
        return f'SymReal({s.e})'

    __str__ = __repr__

    def __reduce__(s):
        raise TypeError('SymReal is not picklable')


# ---------------------------------------------------------------- uninterpreted transcendental kernels

_R = z3.RealSort()
UF = {n: z3.Function('uf_' + n, _R, _R) for n in
      ('exp', 'log', 'log2', 'log10', 'sin', 'cos', 'tan', 'sqrt', 'exp2', 'exp10', 'tanh', 'atan', 'cbrt')}
MONOTONE = {'exp', 'exp2', 'exp10', 'log', 'log2', 'log10', 'sqrt', 'cbrt', 'tanh', 'atan'}
PI = Fraction(repr(math.pi))
PI2 = Fraction(repr(math.pi * .5))
UF2 = {n: z3.Function('uf_' + n, _R, _R, _R) for n in ('pow', 'atan2', 'hypot')}


def _real(t):
    return z3.ToReal(t) if z3.is_int(t) else t


def uf1(name, x):
    """Apply an uninterpreted kernel; instantiate the listed axioms at this argument."""
    if not is_sym(x):
        return getattr(math, name)(x) if hasattr(math, name) else {'exp2': lambda v: 2.0 ** v,
                                                                     'exp10': lambda v: 10.0 ** v}[name](x)
    ctx = Ctx.cur
    a = z3.simplify(_real(x.e))
    y = _uf_app(ctx, name, (a,))
    ax = []
    if name == 'exp':
        ax = [y > 0, z3.Implies(a == 0, y == 1), z3.Implies(a > 0, y > 1), z3.Implies(a < 0, y < 1)]
    elif name == 'exp2':
        ax = [y > 0, z3.Implies(a == 0, y == 1), z3.Implies(a > 0, y > 1), z3.Implies(a < 0, y < 1),
              _uf_app(ctx, 'log2', (y,)) == a]
    elif name == 'log2':
        ax = [z3.Implies(a > 0, _uf_app(ctx, 'exp2', (y,)) == a), z3.Implies(a == 1, y == 0),
              z3.Implies(a > 1, y > 0), z3.Implies(z3.And(a > 0, a < 1), y < 0)]
    elif name == 'log':
        ax = [z3.Implies(a > 0, _uf_app(ctx, 'exp', (y,)) == a), z3.Implies(a == 1, y == 0),
              z3.Implies(a > 1, y > 0), z3.Implies(z3.And(a > 0, a < 1), y < 0)]
    elif name == 'log10':
        ax = [z3.Implies(a > 0, _uf_app(ctx, 'exp10', (y,)) == a), z3.Implies(a == 1, y == 0), z3.Implies(a > 1, y > 0),
              z3.Implies(z3.And(a > 0, a < 1), y < 0)]
    elif name == 'exp10':
        ax = [y > 0, z3.Implies(a == 0, y == 1), z3.Implies(a > 0, y > 1), z3.Implies(a < 0, y < 1),
              _uf_app(ctx, 'log10', (y,)) == a]
    elif name in ('sin', 'cos'):
        ax = [y >= -1, y <= 1]
        if name == 'sin':
            ax.append(z3.Implies(a == 0, y == 0))
        else:
            ax.append(z3.Implies(a == 0, y == 1))
    elif name == 'sqrt':
        ax = [z3.Implies(a >= 0, z3.And(y >= 0, y * y == a))]
    elif name == 'cbrt':
        ax = [y * y * y == a, z3.Implies(a >= 0, y >= 0), z3.Implies(a <= 0, y <= 0)]
    if name == 'sin':
        ax += [z3.Implies(a == z3.RealVal(PI2), y == 1), z3.Implies(a == z3.RealVal(PI), y == 0),
               z3.Implies(z3.And(a >= 0, a <= z3.RealVal(PI)), y >= 0)]
    if name == 'cos':
        ax += [z3.Implies(a == z3.RealVal(PI2), y == 0), z3.Implies(a == z3.RealVal(PI), y == -1)]
    if name in MONOTONE:
        for (args2, y2) in ctx._uf_apps.get(name, []):
            a2 = args2[0]
            if y2 is y:
                continue
            ax += [z3.Implies(a <= a2, y <= y2), z3.Implies(a2 <= a, y2 <= y)]
    for c in ax:
        ctx.solver.add(c)
    ctx._model = None
    ctx.axioms_used.add(name)
    return SymReal(y)


def _uf_app(ctx, name, args):
    """Ackermannised application: one fresh real per distinct argument tuple, congruence axioms against the other
    applications of the same kernel.  Keeps every query in quantifier-free non-linear real arithmetic (nlsat)."""
    apps = ctx.__dict__.setdefault('_uf_apps', {}).setdefault(name, [])
    for (args2, y2) in apps:
        if all(z3.eq(p, q) for p, q in zip(args, args2)):
            return y2
    y = z3.Real(f'{name}!{len(apps)}!{next(_uid)}')
    for (args2, y2) in apps:
        ctx.solver.add(z3.Implies(z3.And(*[p == q for p, q in zip(args, args2)]), y == y2))
    apps.append((args, y))
    ctx._model = None
    return y


def uf_pow(x, y):
    ctx = Ctx.cur
    a, b = z3.simplify(_real(_t(x))), z3.simplify(_real(_t(y)))
    r = _uf_app(ctx, 'pow', (a, b))
    ctx.solver.add(z3.Implies(b == 0, r == 1), z3.Implies(b == 1, r == a),
                   z3.Implies(z3.And(a > 0), r > 0), z3.Implies(z3.And(a == 0, b > 0), r == 0),
                   z3.Implies(a == 1, r == 1),
                   # a^b lies between 1 and a for 0 <= b <= 1, a > 0
                   z3.Implies(z3.And(a >= 1, b >= 0, b <= 1), z3.And(r >= 1, r <= a)),
                   z3.Implies(z3.And(a > 0, a <= 1, b >= 0, b <= 1), z3.And(r <= 1, r >= a)))
    ctx._model = None
    ctx.axioms_used.add('pow')
    return SymReal(r)


# ---------------------------------------------------------------- exploration

class Stats:
    def __init__(self):
        self.paths = 0
        self.aborted = 0
        self.queries = 0
        self.solver_s = 0.0
        self.obligations = 0
        self.discharged = 0
        self.nontrivial = 0
        self.notes = {}
        self.violations = []      # dicts
        self.inconclusive = []
        self.truncated = False
        self.samples = []
        self.axioms = set()
        self.wall = 0.0

    def merge(self, o):
        self.paths += o.paths
        self.aborted += o.aborted
        self.queries += o.queries
        self.solver_s += o.solver_s
        self.obligations += o.obligations
        self.discharged += o.discharged
        self.nontrivial += o.nontrivial
        for k, v in o.notes.items():
            self.notes[k] = self.notes.get(k, 0) + v
        self.violations += o.violations
        self.inconclusive += o.inconclusive
        self.truncated = self.truncated or o.truncated
        self.samples = (self.samples + o.samples)[:12]
        self.axioms |= o.axioms
        self.wall += o.wall

    def as_dict(self):
        d = dict(self.__dict__)
        d['axioms'] = sorted(self.axioms)
        return d


def explore(harness, max_paths=200000, stop_on_violation=True, timeout_ms=20000, keep_samples=3, deadline=None):
    """Run harness(ctx) on every feasible path.  The harness may return a JSON-able sample description."""
    st = Stats()
    t0 = time.time()
    prefix = []
    while True:
        ctx = Ctx(prefix, timeout_ms=timeout_ms)
        Ctx.cur = ctx
        try:
            res = harness(ctx)
            if res is not None and len(st.samples) < keep_samples:
                st.samples.append(res)
        except PathAbort:
            st.aborted += 1
        except Violation as v:
            vals = {}
            try:
                vals = ctx.model_values(v.model)
            except BaseException as e:   # noqa
                vals = {'_error': repr(e)}
            st.violations.append({'what': v.what, 'model': vals, 'data': v.data,
                                  'decisions': [d[0] for d in ctx.prefix[:ctx.pos]]})
            if stop_on_violation:
                _acc(st, ctx)
                break
        except Inconclusive as e:
            st.inconclusive.append(str(e))
            _acc(st, ctx)
            break
        finally:
            Ctx.cur = None
        _acc(st, ctx)
        prefix = ctx.prefix[:ctx.pos] if ctx.pos <= len(ctx.prefix) else ctx.prefix
        while prefix and not prefix[-1][1]:
            prefix.pop()
        if not prefix:
            break
        last = prefix[-1]
        nxt = last[1][0]
        prefix[-1] = [nxt, last[1][1:]]
        if st.paths >= max_paths or (deadline is not None and time.time() > deadline):
            st.truncated = True
            break
    st.wall = time.time() - t0
    return st


def _acc(st, ctx):
    st.paths += 1
    st.queries += ctx.nqueries
    st.solver_s += ctx.solver_s
    st.obligations += ctx.obligations
    st.discharged += ctx.discharged
    if ctx.discharged:
        st.nontrivial += 1
    st.axioms |= ctx.axioms_used
    for n in ctx.notes:
        st.notes[n] = st.notes.get(n, 0) + 1


# ---------------------------------------------------------------- shims for names resolved in module globals

import builtins as _bi


class _FloatMeta(type):
    def __instancecheck__(cls, o):
        return isinstance(o, (_bi.float, SymReal))

    def __subclasscheck__(cls, c):
        return issubclass(c, _bi.float)

    def __call__(cls, x=0.0):
        if isinstance(x, SymReal):
            return x
        if isinstance(x, (SymInt, SymIdx)):
            return SymReal(z3.ToReal(x.e))
        if isinstance(x, SymBool):
            return SymReal(z3.If(x.e, z3.RealVal(1), z3.RealVal(0)))
        v = _bi.float(x)
        ctx = Ctx.cur
        if ctx is not None and ctx.track_consts and v == v and v not in (math.inf, -math.inf):
            return register_const(v)
        return v

    def __eq__(cls, o):
        return o is cls or o is _bi.float

    def __hash__(cls):
        return hash(_bi.float)


class FloatShim(metaclass=_FloatMeta):
    fromhex = _bi.float.fromhex


class _IntMeta(type):
    def __instancecheck__(cls, o):
        return isinstance(o, (_bi.int, SymInt))

    def __subclasscheck__(cls, c):
        return issubclass(c, _bi.int)

    def __call__(cls, x=0, *a):
        if isinstance(x, SymReal):
            return SymInt(to_int_trunc(x.e))
        if isinstance(x, SymInt):
            return x
        if isinstance(x, SymBool):
            return SymInt(z3.If(x.e, z3.IntVal(1), z3.IntVal(0)))
        return _bi.int(x, *a)

    def __eq__(cls, o):
        return o is cls or o is _bi.int

    def __hash__(cls):
        return hash(_bi.int)


class IntShim(metaclass=_IntMeta):
    pass


def type_shim(x, *a):
    if a:
        return _bi.type(x, *a)
    if isinstance(x, SymReal):
        return FloatShim
    if isinstance(x, SymInt):
        return IntShim
    t = _bi.type(x)
    if t is _bi.float:
        return FloatShim
    if t is _bi.int:
        return IntShim
    return t


class MathShim:
    """Replacement for the `math` module inside library modules: symbolic-aware kernels, everything else passes."""

    def __getattr__(self, name):
        return getattr(math, name)

    inf = math.inf
    pi = math.pi
    e = math.e
    nan = math.nan

    @staticmethod
    def floor(x):
        if isinstance(x, SymReal):
            return SymInt(floor_t(x.e))
        if isinstance(x, (SymInt, SymIdx)):
            return x
        return math.floor(x)

    @staticmethod
    def ceil(x):
        if isinstance(x, SymReal):
            return SymInt(ceil_t(x.e))
        if isinstance(x, (SymInt, SymIdx)):
            return x
        return math.ceil(x)

    @staticmethod
    def trunc(x):
        if isinstance(x, SymReal):
            return SymInt(to_int_trunc(x.e))
        if isinstance(x, (SymInt, SymIdx)):
            return x
        return math.trunc(x)

    @staticmethod
    def isnan(x):
        return False if is_sym(x) else math.isnan(x)

    @staticmethod
    def isinf(x):
        return False if is_sym(x) else math.isinf(x)

    @staticmethod
    def isfinite(x):
        return True if is_sym(x) else math.isfinite(x)

    @staticmethod
    def fabs(x):
        return abs(x) if is_sym(x) else math.fabs(x)

    @staticmethod
    def copysign(x, y):
        if is_sym(x) or is_sym(y):
            ax = abs(x)
            return ax if y >= 0 else -ax
        return math.copysign(x, y)

    @staticmethod
    def fmod(x, y):
        if is_sym(x) or is_sym(y):
            q = x / y
            qi = MathShim.trunc(q)
            return x - qi * y
        return math.fmod(x, y)

    @staticmethod
    def pow(x, y):
        if is_sym(x) or is_sym(y):
            if not is_sym(x) and x == 2.0:
                return uf1('exp2', y)
            if not is_sym(x) and x == 10.0:
                return uf1('exp10', y)
            if not is_sym(y) and abs(y - 1 / 3) < 1e-6:
                return uf1('cbrt', x)      # the literal 0.3333333 denotes 1/3
            return uf_pow(x, y)
        return math.pow(x, y)

    @staticmethod
    def hypot(x, y):
        if is_sym(x) or is_sym(y):
            return uf1('sqrt', x * x + y * y)
        return math.hypot(x, y)


for _n in ('exp', 'log2', 'log10', 'sin', 'cos', 'tan', 'sqrt', 'tanh', 'atan'):
    def _mk(n):
        def f(x):
            if is_sym(x):
                return uf1(n, x)
            return getattr(math, n)(x)
        return staticmethod(f)
    setattr(MathShim, _n, _mk(_n))


def _log(x, base=None):
    if is_sym(x):
        if base is None:
            return uf1('log', x)
        if base == 2:
            return uf1('log2', x)
        if base == 10:
            return uf1('log10', x)
        raise Inconclusive('log with symbolic base')
    return math.log(x) if base is None else math.log(x, base)


MathShim.log = staticmethod(_log)


class shims:
    """Context manager: install the symbolic-aware names into library modules' globals (and restore them).

    type/int/float are always installed together: type_shim returns the shim classes, so `type(x) is int` and
    `isinstance(x, float)` inside the module both keep their meaning for proxies and for plain numbers.
    """
    _math = MathShim()

    def __init__(self, *modules, math=True, extra=None):
        if not modules:
            import sys
            modules = tuple(m for n, m in sorted(sys.modules.items())
                            if (n == 'sc3' or n.startswith('sc3.')) and m is not None)
        self.modules = modules
        self.math = math
        self.extra = extra or {}
        self.saved = []

    def __enter__(self):
        for m in self.modules:
            names = {'type': type_shim, 'int': IntShim, 'float': FloatShim}
            if self.math and hasattr(m, 'math'):
                names['math'] = self._math
            if hasattr(m, 'isnan'):
                names['isnan'] = MathShim.isnan
            names.update(self.extra.get(m.__name__, {}))
            for k, v in names.items():
                self.saved.append((m, k, m.__dict__.get(k, _MISSING)))
                setattr(m, k, v)
        return self

    def __exit__(self, *a):
        for m, k, v in reversed(self.saved):
            if v is _MISSING:
                try:
                    delattr(m, k)
                except AttributeError:
                    pass
            else:
                setattr(m, k, v)
        self.saved = []
        return False


_MISSING = object()


import struct as _struct


class StructShim:
    """`struct` for the definition/OSC writers: symbolic reals are packed as the f32-exact representative of their
    equivalence class (read back by vf/scgf.py + rep_term); bounded symbolic ints are concretised by forking."""
    error = _struct.error
    calcsize = staticmethod(_struct.calcsize)
    unpack = staticmethod(_struct.unpack)
    unpack_from = staticmethod(_struct.unpack_from)

    @staticmethod
    def pack(fmt, *vals):
        out = []
        for v in vals:
            if isinstance(v, SymReal):
                out.append(pack_rep(v))
            elif isinstance(v, SymInt):
                out.append(v.__index__())
            else:
                out.append(v)
        return _struct.pack(fmt, *out)


class OscStructShim(StructShim):
    """`struct` for sc3.base._osclib: symbolic ints are packed as unique placeholders (recorded in ctx._ph) so that
    the independent OSC reader can map the bytes back to terms; range checks of the C packer are reproduced as forks."""

    @staticmethod
    def pack(fmt, *vals):
        ctx = Ctx.cur
        out = []
        for v in vals:
            if isinstance(v, SymInt):
                ph = ctx.__dict__.setdefault('_ph', {})
                if fmt == '>Q':
                    if not ctx.branch(z3.And(v.e >= 0, v.e < 2 ** 64)):
                        raise _struct.error('argument out of range')
                    p = 0x5A5A5A0000000000 + len(ph)
                elif fmt in ('>i',):
                    if not ctx.branch(z3.And(v.e >= -2 ** 31, v.e < 2 ** 31)):
                        raise _struct.error('argument out of range')
                    p = 0x5A000000 + len(ph)
                elif fmt in ('>I',):
                    if not ctx.branch(z3.And(v.e >= 0, v.e < 2 ** 32)):
                        raise _struct.error('argument out of range')
                    p = 0x5A000000 + len(ph)
                else:
                    raise Inconclusive(f'symbolic int packed with format {fmt}')
                ph[p] = v.e
                out.append(p)
            elif isinstance(v, SymReal):
                out.append(pack_rep(v))
            else:
                out.append(v)
        return _struct.pack(fmt, *out)


def placeholder_term(v):
    """int read back from bytes -> the symbolic term it stands for (or the number itself)"""
    ctx = Ctx.cur
    ph = ctx.__dict__.get('_ph', {}) if ctx is not None else {}
    return ph.get(v, z3.IntVal(v))
