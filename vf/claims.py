"""Claims: filled as checks are built."""
from .registry import claim, NOT_APPLICABLE  # noqa

_TB = ('z3 decides each obligation for all reals/ints on the path; Python floats are abstracted by exact reals; '
       'proxies/shims of vf/symx.py are trusted (cross-checked by concrete replays); bounds are listed in the evidence')

claim('C09', 'model_checking',
      'Bounded model checking of the real TaskQueue: every history of <=4 (quick) / <=5 (thorough) operations over '
      'the full operation alphabet and 3 tasks, with symbolic priorities (ties included), is compared with a '
      'sorted-list reference by z3 validity queries; plus an inductive step from an arbitrary invariant-satisfying '
      'heap of <=3/4 entries, which extends the claim to histories of any length within that heap size.',
      _TB + '; heapq and list comparison are executed, not modelled.',
      'symbolic execution of the real class (concolic z3 proxies) + per-path SMT validity; inductive step over the '
      'representation invariant', 'DESIGN.md 3/C09')
