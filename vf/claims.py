"""Claims: filled as checks are built."""
from .registry import claim, NOT_APPLICABLE  # noqa
