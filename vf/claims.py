"""Claims: filled as checks are built."""
from .registry import claim, NOT_APPLICABLE  # noqa

_TB = ('z3 decides each obligation for all reals/ints on the path; Python floats are abstracted by exact reals; '
       'proxies/shims of vf/symx.py are trusted (cross-checked by concrete replays); bounds are listed in the evidence')

claim('C09', 'model_checking',
      'Bounded model checking of the real TaskQueue: every history of <=4 (quick) / <=5 (thorough) operations over '
      'the full operation alphabet and 3 tasks, with symbolic priorities (ties included), is compared with a '
      'sorted-list reference by z3 validity queries; plus an inductive step from an arbitrary invariant-satisfying '
      'heap of <=3/4 entries, which extends the claim to histories of any length within that heap size. Items are '
      'handed over as equal-but-not-identical objects. The real Process._shutdown drain with exit actions that add, '
      'move or remove actions while it runs; Ppar streams with symbolic child durations (one stream, two alive at '
      'once, an abandoned one, the same Ppar twice inside another): every child event exactly once at its own time. '
      'The tick of the scheduler AppClock runs on (recursive and non-recursive): 2..3 tasks with symbolic times '
      'expiring in one tick wake once each in (time, scheduling order) order. The NRT ClockScheduler with a task '
      'scheduled again while pending (symbolic delta, instant and new delay in (0, 8], SystemClock / TempoClock, '
      'optional tempo change afterwards): four wake-ups, each at the beat the last scheduling says.',
      _TB + '; heapq and list comparison are executed, not modelled.',
      'symbolic execution of the real class (concolic z3 proxies) + per-path SMT validity; inductive step over the '
      'representation invariant', 'DESIGN.md 3/C09')

claim('C16', 'model_checking',
      'Block allocator (the class Server installs): explicit reachable-state exploration of the real object to a '
      'fixpoint for every configuration (partition size <=5 quick / <=7 thorough, reserved offset, client id), '
      'i.e. every history of alloc(n)/free/double free of any length within those sizes, with the random tie-break '
      'and free-list iteration order as adversarial choices; each transition is checked against an interval-set '
      'reference (inside partition, disjoint, no-space only when no free run). Node ids: one symbolic step from an '
      'arbitrary cursor over the whole 26-bit window decided by z3, plus z3 lemmas giving pairwise distinctness over '
      'a full window. Server level: for small option values (audio/control buses, buffers, in/out channels, reserved '
      'counts, max_logins 1..3, every client id) every index a Server hands out until exhaustion lies inside the '
      'server\'s range for that resource, ranges of different client ids are disjoint and each client gets its share, '
      'also when the running server reports another number of logins than the client\'s option. '
      'Object level: every history of 4..5 operations (new, free of any object made so far -- also one already '
      'freed) on Buffer, AudioBus and ControlBus objects: no new object gets an index a live one owns.',
      _TB + '; the block-allocator part is finite-domain: the decision tree enumerates it completely and the solver '
      'only decides the node-id obligations.',
      'decision-tree state exploration of the real allocator (fixpoint) + SMT validity (LIA) for NodeIDAllocator',
      'DESIGN.md 3/C16')

claim('C12', 'other',
      'Each law of the property (affine round trips, continuity of tempo/etempo/beats changes at the change instant, '
      'rate == tempo, next_time_on_grid earliest congruent beat >= reference counted from the last meter change, '
      'play(quant) scheduling there for every spelling of the quant -- object, pair, list, bare number, the spellings of '
      '"no quantisation" --, bar/beat inverses, next_bar) is one z3 validity query over the terms computed by '
      'the real TempoClock methods from an ARBITRARY invariant-satisfying state (all fields, logical and physical time '
      'symbolic reals); the setters are proved to re-establish the invariant (already inside the \'meter\' notification '
      'a dependant receives), so the laws hold after histories of any length. quant and beats_per_bar in the '
      'floor-based laws range over a stated grid. Scheduler side (NRT, C05\'s scenario): a routine pending on the clock '
      'while another routine changes the tempo still wakes at its beat.',
      _TB + '; main.elapsed_time and the current thread are stubs returning arbitrary reals (physical >= logical).',
      'symbolic execution of the real TempoClock methods (z3 Real terms) + SMT validity per law (NRA, ToInt witnesses)',
      'DESIGN.md 3/C12')

claim('C15', 'other',
      'Kernel laws (wrap/fold in bounds, clip idempotent, round/roundup/trunc multiples on the correct side within '
      'one quantum, mod in [0,b), the four inverse pairs) are z3 validity queries over the terms the real builtins '
      'compute for symbolic real and int arguments (range/quantum from a stated grid, lo/x symbolic). Lifting: for '
      'every operator method of AbstractObject and every scbuiltin (enumerated from the code), over Function, Stream, '
      'Pattern, ChannelList (lengths 1..3), Operand, Rest and plain numbers on either side, the evaluated composed '
      'object equals the numeric operator applied to the evaluated operands (z3 equality of terms on every path; '
      'concrete leaves where the kernel is C-only or non-linear for the solver).',
      _TB + '; transcendental functions are uninterpreted with exp2/log2, exp10/log10 inverse axioms; decimal literals '
      'denote their decimal value and 1/12, 1/440 their rationals.',
      'symbolic execution of the real kernels/composition classes + SMT validity per law', 'DESIGN.md 3/C15')

claim('C19', 'other',
      'Layout of Env._envgen_format (initial level, count, release/loop node or -99, per-segment level/time/shape '
      'number/curvature with wrap indexing; every shape name against an independent server table), the documented '
      'breakpoints of the 11 standard constructors, and client-side evaluation (_at == level at each breakpoint, '
      'between the neighbouring levels inside a segment for all 9 shape kinds, last level afterwards, for a symbolic '
      'start offset; an envelope derived from one whose encodings were already computed -- range / exprange copies, a new '
      'duration -- is encoded like a fresh one; Env.pairs leaves the caller\'s points alone) are z3 validity '
      'queries over the terms computed by the real Env methods for symbolic levels, times, curvatures and evaluation '
      'time; segment counts, curve-spec kinds and node options are explored completely up to the stated bound.',
      _TB + '; exp/sin/cos/sqrt/cbrt/pow are uninterpreted (Ackermannised) with the listed axioms.',
      'symbolic execution of the real Env methods + SMT validity (QF_NRA, nlsat retry)', 'DESIGN.md 3/C19')

claim('C01', 'translation_validation',
      'Every program of the bounded space (all SSA expression DAGs with <=2 ring-operator nodes over audio/control '
      'units and two constants in quick; <=2 nodes over 8 leaf kinds and <=3 nodes over 3 leaves in thorough; plus '
      'madd (also in list form over channels of different rates), 3/4-term sums through +, Sum3/Sum4.new and Mix, '
      'shared rewritten sums, double negations, dead pure operators, two outputs, a number / unit on the left of a channel '
      'list (the list\'s reflected operators), and every unary/binary server operator) is built by the real SynthDef with SYMBOLIC constants; the emitted bytes are decoded by an '
      'independent SCgf-2 reader into z3 terms and z3 proves, per path, compiled output == source expression for all '
      'leaf values and all constants of the path class, stateful units exactly once, opcode == server table, '
      'arithmetic rates == max input rate.',
      _TB + '; the independent decoder/opcode tables in vf/scgf.py; non-ring operators are uninterpreted.',
      'symbolic execution of the real builder/optimiser + SMT equivalence of source and compiled terms (QF_NRA)',
      'DESIGN.md 3/C01')

claim('C02', 'translation_validation',
      'Families of graph functions (width-first units x optimiser rewrites, multi-output units and nested expansion '
      'with symbolic channel counts, sums over a symbolic number of generators up to 40/80, definition names of '
      '0..257 characters, parameters of several sizes/rates with and without gate, invalid graphs) are built by the '
      'real SynthDef with symbolic constants; per path an independent SCgf-2 reader must consume the bytes exactly, '
      'all inputs refer to constants or strictly earlier outputs, width-first units precede everything created after '
      'them, parameter slots are covered exactly once, and SynthDesc.new_from/_read_stream recover name, control names, '
      'defaults (z3 equality with the symbolic source defaults), rates, gate flag and I/O units; invalid graphs (rate '
      'mismatches, NaN / non-numeric inputs, also into units with their own validators at audio and control rate) must '
      'raise; a rewritten operator read on two inputs of one consumer; every output unit the graph function created is '
      'in the emitted definition. Every C01 path is validated structurally as well.',
      _TB + '; creation order is observed by wrapping SynthDef._add_ugen from the harness.',
      'symbolic execution of the real builder/writer/reader + independent structural validation per path',
      'DESIGN.md 3/C02')

claim('C04', 'translation_validation',
      'All signatures of up to 3 (quick) / 4 (thorough, plus 40-parameter ones) parameters over a table of 14 '
      'parameter kinds (annotation x rates entry x default shape) with SYMBOLIC default, lag and variant values, plus '
      'prepend, one level of SynthDef.wrap, metadata spec defaults, 1-3 variants and the callable interface, are built '
      'by the real SynthDef; the decoded definition is compared with a reference layout (slots by rate group and '
      'declaration order, name table -> first slot, Control/TrigControl/AudioControl/LagControl kind, rate, first slot '
      'and lag inputs, variant blocks) with z3 equality for every value, and the objects the body received are checked '
      'to be the control outputs at the parameter\'s slots.',
      _TB + '; the reference layout in vf/props/c04.py is transcribed from the property statement.',
      'symbolic execution of the real builder + decoded-bytes vs reference layout (SMT equality per value)',
      'DESIGN.md 3/C04')

claim('C03', 'translation_validation',
      'For every unit-generator class whose audio constructor delegates directly to the generic expansion (8 classes '
      'quick, all 105 found by introspection thorough), for arithmetic operators between units, channel lists, plain '
      'lists and numbers (reflected forms included) and for 11 ChannelList convenience methods (range mappings with the '
      'default, None and one-sided clip argument): every combination of '
      'argument shapes (scalar, lists of 1..3, two ragged nestings) is built twice by the real SynthDef -- once as the '
      'multichannel call and once as the single-channel calls the wrap-and-zip law prescribes -- and the two decoded '
      'definitions must be identical, the result shaped like the reference, one unit per combination; tuples stay '
      'opaque; Out receives the array with zeros (symbolic numbers, == 0 forked by the solver) replaced by one '
      'audio-rate silence.',
      _TB + '; element values are concrete (the law is structural), so this check is complete enumeration of the '
      'stated shape space through the decision tree; the solver decides the zero-replacement family.',
      'decision-tree exploration of the real expansion code + decoded-definition equality against the law\'s reference '
      'expansion', 'DESIGN.md 3/C03')

claim('C08', 'model_checking',
      'Bounded model checking of the real SystemClock._run, TempoClock._run and AppClock._run loops by '
      'environment-in-wait co-simulation: physical time is a symbolic non-decreasing real, the placement of up to 3 '
      'foreign actions (sched, sched_abs, clear, tempo change, etempo, the same task object scheduled again) relative to the clock thread\'s sleep/wake cycle and every '
      'wait outcome (notified, timed out, blocked for ever) are solver decisions, scheduling deltas and the re-schedule '
      'value are symbolic reals, all subsets of raising tasks. Obligations per path (z3): exactly once per scheduling, '
      'never early, in the zero-jitter sub-model exactly on time (no waiting for an unrelated deadline), (time, '
      'scheduling order) order, re-schedule relative to the scheduled time, clear cancels, no blocking for ever with a '
      'pending task, and the time the main thread reads after an AppClock task returned or raised is the present.'
      ' Schedule counterexamples are replayed on real threads and real time.',
      _TB + '; threading.Condition/Thread/RLock inside sc3.base.clock are replaced by the co-simulation fakes '
      '(no spurious wake-ups; a notify without waiter is lost); tasks take no time; TempoClock tempo from a grid.',
      'symbolic co-simulation of the real run loops (interleavings and time as solver variables) + SMT validity',
      'DESIGN.md 2.3, 3/C08')

claim('C05', 'model_checking',
      'RT: co-simulation of the real SystemClock/TempoClock run loops with ARBITRARY wake-up latency: a routine with '
      '2/3 symbolic yields, an optional competing routine and an optional child routine (same clock, TempoClock or '
      'SystemClock; started with play or with clock.sched(delay, routine)) -- z3 proves at every resumption logical time == start + sum of deltas (through the tempo), child '
      'start == parent\'s current logical time, on every interleaving chosen by the decision tree. NRT: the real '
      'ClockScheduler with routines on SystemClock, AppClock and TempoClocks created at a non-zero time (with/without '
      'beats offset; a tempo change through the setter and through etempo from the routine itself): same closed form, '
      'executed instants non-decreasing, elapsed time ends at the last instant; a tempo change by ANOTHER routine while '
      'the routine is pending leaves its beats at start + sum of deltas. '
      'RT counterexamples are replayed on real threads under load, NRT ones concretely.',
      _TB + '; co-simulation fakes for threading inside sc3.base.clock; tempo from a grid; routines are played with '
      'quant 0 (TempoClock.play quantises to the next beat by default, which is documented behaviour).',
      'symbolic co-simulation (RT) / symbolic execution of the NRT scheduler + SMT validity of the closed form',
      'DESIGN.md 3/C05')

claim('C07', 'model_checking',
      'RT: inside the clock co-simulation (arbitrary jitter) a routine step or the main thread sends a bundle, a nested '
      'bundle, a message or a message with a completion-bundle blob with symbolic latencies; the datagram captured at '
      'OscInterface._send is decoded by an independent OSC 1.0 reader, the timetag placeholder is mapped back to its '
      'term and z3 proves timetag == trunc((logical time + latency) * 2^32) + offset (now + latency outside routines, 1 '
      'for None/negative; also after an AppClock routine ended or an AppClock task raised), nested bundles relative to '
      'the same instant and refused when earlier than their parent; '
      'osc/elapsed conversion within 2^-32. NRT: the real OscScore for all programs of 1..3 (quick) / 4 sends from a '
      'routine or from outside with symbolic latencies/yields/tailtime: listed time == t + L, sorted, FIFO among equal '
      'times (equality forked by the solver), closes with the tail marker, raw == concatenation of the same bundles.',
      _TB + '; struct inside sc3.base._osclib packs symbolic timetags as placeholders; times below 10^6 s.',
      'symbolic co-simulation / symbolic execution of the score + independent OSC decoding + SMT validity',
      'DESIGN.md 3/C07')

claim('C06', 'other',
      'Decided by solvers: (a) CrossHair confirms over all paths, for symbolic bytes (<= 6) and any int, blob '
      'round-trip/alignment/padding, blob size prediction >= real size and int32 round-trip/refusal on the real '
      'codecs; (b) z3 proves on the real NetAddr._clump_bundle loop, with SYMBOLIC element sizes and limit (both call '
      'sites), that every clump\'s real size 16 + sum(4 + s_i) stays within the limit whenever each element fits alone '
      'and that elements are carried once and in order (models replayed with real messages of those sizes); (c) the '
      '/d_recv-or-file decision against the real encoded size across the UDP-limit boundary; (d) message and bundle '
      'framing with SYMBOLIC CONTENT: for 16 (quick) / 24 argument templates over strings, blobs, int32, floats, '
      'True/False/None/[] coercions, nested message and bundle blobs and array markers, every string / blob length up '
      'to N is forked and EVERY byte value, int and float is a solver variable; the real _build_msg / _build_bundle run '
      'on cell-list proxies of str / bytes, and z3 proves per path: a string with a NUL byte is refused and nothing '
      'else is, length = 0 mod 4, the datagram matches an independent OSC 1.0 layout walk field by field (terminator '
      'and padding zeros, size prefixes, type tags), the library\'s own decoder returns the coerced arguments, and '
      'the predicted size is >= the real size. Bug hunting only (stated as such in the evidence): CrossHair on '
      'symbolic str arguments and whole message templates against the independent reader.',
      _TB + '; CrossHair 0.0.110; vf/oscref.py is the reference reader; in (d) string bytes are opaque values '
      '(utf-8 well-formedness not modelled, character count a separate symbolic), N = 3..4 quick / 4..9 thorough.',
      'CrossHair symbolic execution of the real codecs + symbolic execution of the real builders/decoders/sizers on '
      'symbolic-content byte ropes with SMT validity per field; SMT validity on the clump loop',
      'DESIGN.md 3/C06')

claim('C17', 'model_checking',
      'Client-object histories (3 operations outside bind(), 2 inside; thorough: argument-form variants at every '
      'position and 4-operation histories for 8 first pairs) over Synth / Group / ParGroup '
      'creation with every add action and default-group / server / node / root targets, list and dict arguments, '
      'set (scalars, arrays, bus and buffer objects), setn, map / mapn / mapa / mapan, fill, run, release, '
      'move_before / after / to_head / to_tail, free, Buffer allocation (single; 1..4 consecutive), free, double '
      'free (with and without a completion function), free_all, Bus allocation / free / set, sub buses at every offset, '
      'and sync inside bind(); inside bind() an exception is raised at '
      'a symbolic position. Everything the objects hand to the OSC interface is recorded and checked against a '
      'command schema table transcribed from the Server Command Reference (name, count pattern, argument kinds, '
      'nested lists only as completion blobs) and an id ledger (only own ids; creation carries the own id, action '
      'and target; free emits exactly the owned ids once; allocator takes numbers back; bus ranges disjoint); a '
      'bind() block must reach the interface as one bundle per segment between syncs in issue order, nothing after '
      'an exception. Control values are symbolic reals (argument equalities decided by z3). Every spelling of every '
      'add action reaches the wire as the server\'s number; every constructor form (Synth(), new_paused, grain, after, '
      'before, head, tail, replace, groups, buffers, bus and node commands) with a target on a second server sends to '
      'that server\'s address with ids from that server\'s allocators, inside and outside bind(); allocation histories '
      'of up to 12 operations over one resource (buffers or control buses): a creation command never carries an id '
      'a live object owns.',
      _TB + '; finite control (operation, target, variant) is enumerated by the decision tree; the harness plays the '
      'server for /sync (answers /synced through the receive functions).',
      'decision-tree model checking of real client objects against a command schema table and id ledger; symbolic '
      'control values (z3 LRA)',
      'DESIGN.md 3/C17')

claim('C18', 'model_checking',
      '(a) matcher: for every pattern skeleton "/" + up to 2 (quick) / 3 tokens over literals, ?, *, sets, ranges, '
      'negated sets and alternatives, the regex the real matcher passes to `re` (rewrite table executed, entry point '
      'observed) is converted to a z3 regular expression and z3 decides language equality with the OSC 1.0 meaning for '
      'printable-ASCII keys of ANY length; (b) all dispatch histories of 5 operations (thorough: richer responder sets) over create / enable / '
      'disable / one_shot / free / replace function / CmdPeriod / message with a symbolic int argument, against a '
      'reference dispatcher: exactly the enabled matching responders fire, once, in registration order per path, with '
      'message, time, sender, port; every combination of source (with and without port) / receive-port filters x sender '
      'host / port x receiving port; (c) one iteration of the real bundle-element loop from an arbitrary position with an '
      'arbitrary int32 size: z3 proves the position strictly increases or the loop leaves (models replayed as real '
      'datagrams under a watchdog); (d) SystemAction / ServerAction / CmdPeriod / NotificationCenter histories vs an '
      'ordered list, also with an action that unregisters a later one while the registry runs; (e) the real UDP '
      'receive loop on a scripted socket (also datagrams that are not utf-8); bundles with nested bundles at any '
      'position: every message dispatched once with the time of its own enclosing bundle; plus CrossHair '
      'bug hunting: no datagram of <= 20 bytes raises into the receiver.',
      _TB + '; the regex->z3 converter and the OSC 1.0 reading stated in the evidence.',
      'SMT regular-language equivalence + decision-tree model checking of the real dispatchers + SMT ranking obligation',
      'DESIGN.md 3/C18')

claim('C20', 'model_checking',
      'Model checking of the real builder, in an RT- and an NRT-initialised process: (1) `set` inside the builder '
      'modules is replaced by a subclass whose iteration order is chosen by the decision tree -- every permutation of '
      'every set iteration in builds of graphs with shared sub-expressions and optimiser rewrites must give the '
      'baseline bytes; (2) failures injected at a symbolic unit index of the graph function, in the input check, on a '
      'NaN / non-numeric input, in the signature and in the writer: afterwards no build context, lock free, a stray unit '
      'belongs to no definition, the next build gives baseline bytes; (3) two real builder threads under a cooperative '
      'scheduler with hand-over choices at every unit creation and lock operation (<= 2/3 voluntary switches): both '
      'results equal their sequential builds; (4) every history of 3/4 operations over successful builds (graphs with '
      'and without width-first units, with a prepended argument, with a default-less parameter), description reads '
      '(SynthDesc.new_from, add), user annotation of a built definition\'s metadata / variants, and failing builds '
      'leaves no build context and every graph still compiles to its fresh-state bytes.'
      ' Counterexamples are replayed with real sets / real preemptive threads.',
      _TB + '; finite control spaces are enumerated completely by the decision tree (the solver is only the branch '
      'oracle here).',
      'decision-tree model checking of the real builder (adversarial set order, fault injection, cooperative 2-thread '
      'schedules)', 'DESIGN.md 3/C20')

claim('C13', 'translation_validation',
      '30 expression templates over Pseq, Pser, Pn, Plen, Pdrop, Pstutter, Pclump, Pflatten, Pdiff, Pconst, Pswitch, '
      'Pswitch1, Place, Ptuple, Pslide, Pseries, Pgeom, Pcollect/Pselect/Preject, Pif, Pwrap and unary/binary/n-ary '
      'operator patterns (also nested inside other patterns), with sub-patterns embedded in place, SYMBOLIC real '
      'elements and symbolic bounded repeats/offsets/lengths/counts (finite and infinite repeats): the real stream is '
      'compared with an independent denotational interpreter -- same length and z3-equal elements on every path -- for '
      'two streams of the same pattern object, one consumed around the other, and the pattern must stay unchanged; '
      'every template is also embedded in a sequence in front of an element that returns its input value and driven '
      'with distinct input values (the element receives the value of its own step); an ended stream stays ended; '
      'seeded random patterns: same seed, same sequence, no interference.',
      _TB + '; the reference interpreter den() in vf/props/c13.py is written from the class documentation.',
      'symbolic execution of the real pattern streams + SMT equality against a denotational reference',
      'DESIGN.md 3/C13')

claim('C10', 'model_checking',
      'Product of two symbolic executions of ONE program text (17 programs quick / 26 thorough: two routines with '
      'every delta symbolic, single-routine time arithmetic with tempo / etempo / beats re-basing, and discrete '
      'features -- seeded random draws with symbolic arguments, Condition wait/signal, pause/resume, stop, child '
      'routine, re-seeding, a tempo / beats change while another routine waits, negative latency, a non-numeric yield, '
      'a plain function scheduled on the clock, a seeded routine reset and played again by another one, next_bar() '
      'on and off a bar line after a meter change -- on SystemClock and TempoClock): the NRT process explores the real ClockScheduler and '
      'emits per path an SMT-LIB summary (path condition + every logged value + every (time, bundle) of '
      'main.process().list); the RT process explores the real clock run loops in the co-simulation with arbitrary '
      'wake-up latency, decodes the datagrams captured at OscInterface._send with the independent OSC reader, and '
      'for every NRT summary overlapping the RT path condition (model-guided search, ending in an unsat = coverage '
      'proof) z3 proves: same steps in the same order, equal logged values (logical seconds / beats relative to '
      'the start, drawn values), same bundles with |timetag - (start + NRT time) * 2^32| <= 1. Determinism: per '
      'NRT path the program is run twice from fresh state (logs, score list and raw score entry by entry equal) '
      'and once more with every other routine drawing extra values (the seeded routine\'s stream is unchanged).',
      _TB + '; one clock per program (cross-clock order is timing dependent in RT); zero wake-up latency for the '
      'discrete-feature programs (thorough: arbitrary latency for four of them), arbitrary latency for the '
      'all-symbolic ones; RT-side '
      'counterexamples are replayed concretely in the co-simulation (real clock code, recorded instants) against a '
      'concrete NRT run in a child process.',
      'symbolic execution of both modes + SMT equivalence of path summaries (LRA/LIA with to_int), co-simulated RT',
      'DESIGN.md 3/C10')

claim('C11', 'model_checking',
      'Bounded model checking of the real Routine against an explicit reference automaton: every history of 3 (quick) / '
      '4 (thorough; 3 when the history begins with next or send) external operations over next, send, pause, resume, '
      'stop, reset, play, with the body\'s behaviour at every step chosen '
      'by the decision tree among yield number (symbolic), yield object, return, raise, YieldAndReset, AlwaysYield, '
      'self-stop/pause/reset, nested routine, nested routine that tries to stop/pause/reset its caller; after every '
      'operation result/exception, state, current thread and the caller\'s logical time (z3) must agree. Condition / '
      'FlowVar: every history of 5/6 operations (up to 2 waiters, signal, test changes, unhang, value assignment, '
      'scheduler runs), the wait reached directly or three routines deep: a waiter resumes exactly once, only after '
      'test-true-and-signalled, and through the routine that is playing on the clock.',
      _TB + '; finite control is enumerated completely by the decision tree; the solver decides value/time equalities.',
      'decision-tree model checking of the real classes against a reference automaton + SMT equality of values/times',
      'DESIGN.md 3/C11')

claim('C14', 'model_checking',
      'NRT process, harness-defined instruments with and without gate. (A) pitch, amplitude and duration key chains: '
      'for every combination of explicitly given keys (degree/note/midinote/freq x transpositions x harmonic/detune; '
      'amp/db/velocity; dur/stretch/legato/delta/sustain) with SYMBOLIC values (degree and mtranspose symbolic ints), '
      'event(key) equals the documented formula (z3; exp2/exp10 uninterpreted with inverse axioms). (B) a note event '
      'played inside a routine: exactly one /s_new at logical time + latency with instrument, fresh node id, add action, '
      'group and the event\'s value for each instrument control the event defines; one gate-off later by sustain iff the '
      'instrument has a gate; nothing for a rest; an event changed and played again, and an edited copy of a played '
      'event, send the current values with fresh node ids. (C) Pbind player: event k at start + sum of deltas; Ppar of three '
      'children keeps each child\'s timeline; Pdur ends at the requested total (with quant: at the pattern\'s length '
      'rounded up to the next multiple); a tuple of names as Pbind key; Pmono: one synth, later events as /n_set on '
      'the timeline -- all over symbolic durations.',
      _TB + '; by design (source comment) ctranspose modifies midinote/note, not the degree path.',
      'symbolic execution of the real event classes / players in NRT + SMT validity of key chains and score timelines',
      'DESIGN.md 3/C14')
