#!/bin/bash
# usage: tools_mut.sh <patch.diff> <ID> [tier]  -- apply a seeded change to /repo, run the check, undo
P=$1; ID=$2; TIER=${3:-quick}
cd /repo || exit 9
[ -z "$(git status --porcelain)" ] || { echo "REFUSING: /repo has uncommitted changes"; exit 9; }
git apply "$P" || { echo "PATCH DOES NOT APPLY"; exit 9; }
cd /verif; timeout 3000 ./check $ID --tier $TIER 2>&1 | grep -v "^INCONCLUSIVE" | tail -6; rc=${PIPESTATUS[0]}
cd /repo && git checkout -- . 
echo "check exit=$rc"
