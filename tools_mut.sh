#!/bin/bash
# usage: tools_mut.sh <patch.diff> <ID> [tier]  -- apply a seeded change to /repo, run the check, undo
P=$1; ID=$2; TIER=${3:-quick}
LOCK=/tmp/wt/mut.lock
[ -e $LOCK ] && { echo "REFUSING: another mutation run is active ($LOCK)"; exit 9; }
cd /repo || exit 9
[ -z "$(git status --porcelain)" ] || { echo "REFUSING: /repo has uncommitted changes"; exit 9; }
git apply --check "$P" || { echo "PATCH DOES NOT APPLY"; exit 9; }
touch $LOCK; trap "cd /repo && git checkout -- . ; rm -f $LOCK" EXIT
git apply "$P"
cd /verif; timeout 1500 ./check $ID --tier $TIER 2>&1 | grep -v "^INCONCLUSIVE" | tail -6; rc=${PIPESTATUS[0]}
echo "check exit=$rc"
