#!/bin/bash
# run every registered check of one tier sequentially; prints id, exit code, wall seconds
tier=${1:-quick}
shift
ids=${@:-C01 C02 C03 C04 C05 C06 C07 C08 C09 C10 C11 C12 C13 C14 C15 C16 C17 C18 C19 C20}
mkdir -p /verif/work/logs
for id in $ids; do
  t0=$(date +%s)
  timeout ${VF_TIMEOUT:-7200} /verif/check $id --tier $tier > /verif/work/logs/$id.$tier.log 2>&1
  rc=$?
  t1=$(date +%s)
  echo "$id $tier exit=$rc wall=$((t1-t0))s $(grep -c '^VIOLATION' /verif/work/logs/$id.$tier.log) violations $(grep -c '^KNOWN-FINDING' /verif/work/logs/$id.$tier.log) known"
done
