#!/bin/bash
# usage: tools_round.sh <outdir> <name>...  -- confirm seeded changes from <outdir>/<name> in a scratch worktree, store the
# confirmed ones under /verif/seeded/<name>, and run the property's quick check against each (scratch worktree, not /repo)
OUTD=$1; shift
export WT=${WT:-/tmp/wt/seedconf}
for n in "$@"; do
  [ -f $OUTD/$n/patch.diff ] || { echo "$n: no patch.diff"; continue; }
  rm -rf /tmp/wt/out/$n; cp -r $OUTD/$n /tmp/wt/out/$n
  /verif/tools_seed.sh $n 2>&1 | grep -v "SyntaxWarning\|^  '" | tail -2
  if [ -d /verif/seeded/$n ]; then
    /verif/tools_mut_wt.sh /verif/seeded/$n/patch.diff ${n%_*} 2>&1 | grep "VIOLATION\|check exit\|^\[C" | tr '\n' ' '; echo
  fi
done
